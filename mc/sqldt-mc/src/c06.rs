//! C06 — format then parse with the same lossless picture returns the original value.

use crate::common::*;
use crate::pools::*;
use crate::probe::*;
use crate::spell::*;
use explorer::serde_json::json;
use explorer::{Acc, Ctx};
use refmodel::picture::{tokenize, Fields, Tok, Ty};
use sqldatetime::Formatter;

const SEPS: [&str; 10] = ["-", "/", ".", ",", ":", ";", "\\", "T", " ", "   "];

fn permutations<T: Clone>(items: &[T]) -> Vec<Vec<T>> {
    if items.len() <= 1 {
        return vec![items.to_vec()];
    }
    let mut out = Vec::new();
    for i in 0..items.len() {
        let mut rest = items.to_vec();
        let x = rest.remove(i);
        for mut p in permutations(&rest) {
            p.insert(0, x.clone());
            out.push(p);
        }
    }
    out
}

fn join_fields(fields: &[&str], sep: &str) -> String {
    fields.join(sep)
}

/// Lossless date pictures of the grammar (as strings).
pub fn date_pictures() -> Vec<String> {
    let months = ["MM", "MON", "Mon", "mon", "MONTH", "Month", "month"];
    let extras = ["", "DAY", "Day", "day", "DY", "Dy", "dy", "D", "DDD"];
    let mut out = Vec::new();
    for sep in SEPS.iter().chain([""].iter()) {
        for mo in months {
            for p in permutations(&["YYYY", mo, "DD"]) {
                for ex in extras {
                    for front in [false, true] {
                        let mut f: Vec<&str> = p.clone();
                        if !ex.is_empty() {
                            if front { f.insert(0, ex) } else { f.push(ex) }
                        } else if front {
                            continue;
                        }
                        out.push(join_fields(&f, sep));
                    }
                }
            }
        }
        // year + day-of-year carries the whole date; a month or a day-of-month is then a consistent extra
        for extra in ["DD", "MM", "MON", "month"] {
            for p in permutations(&["YYYY", "DDD", extra]) {
                out.push(join_fields(&p, sep));
            }
        }
        for p in permutations(&["YYYY", "DDD"]) {
            for ex in ["", "DAY", "dy", "D"] {
                let mut f: Vec<&str> = p.clone();
                if !ex.is_empty() { f.push(ex); }
                out.push(join_fields(&f, sep));
            }
        }
    }
    out
}

/// Lossless time pictures (for Time / the time part of Timestamp; `frac` = allow FF variants).
pub fn time_pictures(frac: bool) -> Vec<String> {
    let mut out = Vec::new();
    let fracs: Vec<&str> = if frac { vec!["", ".FF", ".FF6", ".FF9", ",FF7", " FF", "FF3", "FF1", "FF6", ".FF2"] } else { vec![""] };
    let hours: Vec<(Option<&str>, &str)> = vec![(None, "HH24"), (Some("AM"), "HH12"), (Some("am"), "HH"), (Some("A.M."), "HH12"), (Some("p.m."), "HH12"), (Some("PM"), "hh")];
    for sep in [":", "-", ".", " ", "", ";", "/"] {
        for (mer, h) in &hours {
            for p in permutations(&[*h, "MI", "SS"]) {
                for fr in &fracs {
                    // the fraction follows the seconds field
                    let fields: Vec<String> = p.iter().map(|x| if *x == "SS" { format!("SS{fr}") } else { x.to_string() }).collect();
                    let refs: Vec<&str> = fields.iter().map(|s| s.as_str()).collect();
                    let core = join_fields(&refs, sep);
                    match mer {
                        None => out.push(core),
                        Some(m) => {
                            out.push(format!("{core} {m}"));
                            out.push(format!("{m} {core}"));
                        }
                    }
                }
            }
        }
    }
    out
}

pub fn interval_ym_pictures() -> Vec<String> {
    let mut out = Vec::new();
    for y in ["YYYY", "YYY", "YY", "Y", "yyyy"] {
        for sep in SEPS {
            out.push(format!("{y}{sep}MM"));
        }
        out.push(y.to_string());
    }
    out
}

pub fn interval_dt_pictures() -> Vec<String> {
    let mut out = Vec::new();
    for sep in [":", "-", ".", " ", ";", "/", ",", "T"] {
        for p in permutations(&["HH24", "MI", "SS"]) {
            for fr in ["", ".FF", ".FF6", ".FF9", " FF8"] {
                let fields: Vec<String> = p.iter().map(|x| if *x == "SS" { format!("SS{fr}") } else { x.to_string() }).collect();
                let refs: Vec<&str> = fields.iter().map(|s| s.as_str()).collect();
                out.push(format!("DD {}", join_fields(&refs, sep)));
                out.push(format!("DD{sep}{}", join_fields(&refs, sep)));
            }
        }
    }
    out.push("DD".into());
    out.push("DD HH24".into());
    out.push("DD HH24:MI".into());
    out
}

/// One round trip.  Returns false when the (picture, value) pair is not lossless / unambiguous
/// under the property's definition (then nothing is asserted).
pub fn round_trip(acc: &mut Acc, idx: u64, tv: &TV, f: &Fields, toks: &[Tok], fmt: &Formatter, pic: &str) -> bool {
    if !lossless(tv, f, toks) {
        return false;
    }
    do_round_trip(acc, idx, tv, fmt, pic);
    true
}

/// Lossless: the canonical text denotes exactly this value, and no variable-width field runs into a digit.
pub fn lossless(tv: &TV, f: &Fields, toks: &[Tok]) -> bool {
    if denoted(tv.ty, toks, f) != Some(tv.raw) {
        return false;
    }
    matches!(Spelled::new(tv.ty, toks, f).and_then(|s| s.apply(&[])), Some((_, v)) if v == tv.raw)
}

pub fn do_round_trip(acc: &mut Acc, idx: u64, tv: &TV, fmt: &Formatter, pic: &str) -> bool {
    acc.t(3);
    acc.traces += 1;
    let res = guard(|| {
        let t1 = tv.format_with(fmt).map_err(|e| format!("format failed: {e:?}"))?;
        let p = TV::parse_with(tv.ty, &t1, fmt).map_err(|e| format!("parse of {t1:?} failed: {e:?}"))?;
        if p != tv.raw {
            return Err(format!("text {t1:?} parsed to {p}"));
        }
        let t2 = TV { ty: tv.ty, raw: p }.format_with(fmt).map_err(|e| format!("second format failed: {e:?}"))?;
        if t2 != t1 {
            return Err(format!("re-formatted text {t2:?} differs from {t1:?}"));
        }
        Ok(())
    });
    acc.cls("round_trip_ok");
    match res {
        Ok(Ok(())) => {}
        Ok(Err(msg)) => acc.fail(&format!("C06:{:?}:round-trip-broken", tv.ty), idx, || (format!("{} through picture {pic:?}", tv.show()), format!("parse(format(v)) == v ({}) and identical re-formatted text", tv.raw), msg.clone(),
            format!("// value {} picture {pic:?}", tv.show()))),
        Err(()) => acc.fail(&format!("C06:{:?}:panic", tv.ty), idx, || (format!("{} through picture {pic:?}", tv.show()), "no panic".into(), "panic".into(), String::new())),
    }
    true
}

struct Pic {
    pic: String,
    toks: Vec<Tok>,
    fmt: Formatter,
}

fn compile_all(ctx: &mut Ctx, pics: Vec<String>) -> Vec<Pic> {
    let mut out = Vec::new();
    let mut seen = std::collections::HashSet::new();
    for p in pics {
        if !seen.insert(p.clone()) {
            continue;
        }
        let toks = match tokenize(p.as_bytes()) { Some(t) => t, None => continue };
        match guard(|| Formatter::try_new(&p)) {
            Ok(Ok(fmt)) => out.push(Pic { pic: p, toks, fmt }),
            _ => ctx.machinery_failure(format!("grammar picture {p:?} is accepted by the reference tokenizer but not by the crate (C19's subject)")),
        }
    }
    out
}

pub fn run(ctx: &mut Ctx) {
    let w = world();
    let cal = &w.cal;
    let seed = ctx.seed;
    ctx.rule("a case is one (value, lossless picture) pair at a distinct sweep index: format, parse, format again; non-trivial = every case (each exercises the renderer and the parser of every field of the picture against each other)");
    ctx.assume("pure metamorphic relation: parse(format(v,P),P) == v and format of the result is byte-identical; the reference model is used only to decide which (picture, value) pairs are lossless and unambiguous by the property's definition, never to predict the text");

    let dpics = compile_all(ctx, date_pictures());
    let tpics = compile_all(ctx, time_pictures(true));
    let tpics_nofrac = compile_all(ctx, time_pictures(false));
    let ympics = compile_all(ctx, interval_ym_pictures());
    let dtpics = compile_all(ctx, interval_dt_pictures());
    ctx.bound("grammar", json!({"date_pictures": dpics.len(), "time_pictures": tpics.len(), "time_pictures_without_fraction": tpics_nofrac.len(), "interval_ym_pictures": ympics.len(), "interval_dt_pictures": dtpics.len()}));

    // A. all dates x a basis of date pictures in which every token variant occurs in every position class
    let basis_n = if ctx.thorough() { 96usize } else { 24 };
    let stride = (dpics.len() / basis_n).max(1);
    let rep = TV { ty: Ty::Date, raw: cal.day_number(2024, 9, 25) as i64 };
    let wk_pics = compile_all(ctx, crate::c19::WELL_KNOWN.iter().flat_map(|p| (0..5u8).map(move |v| crate::c19::case_variant(p, v))).collect());
    let mut basis: Vec<&Pic> = dpics.iter().step_by(stride).filter(|p| lossless(&rep, &rep.fields(), &p.toks)).collect();
    basis.extend(wk_pics.iter().filter(|p| lossless(&rep, &rep.fields(), &p.toks)));
    ctx.bound("date_basis_pictures", json!(basis.iter().map(|p| p.pic.clone()).collect::<Vec<_>>()));
    let total = cal.total_days() as u64;
    let basis_r = &basis;
    let r = ctx.sweep("all_dates_x_basis_pictures", "all dates x a basis of date pictures (every token variant in every position class)", total, 1024, |range, acc| {
        let mut c = cal.at(cal.min_day + range.start as i32);
        for idx in range {
            let f = Fields { year: c.y as i64, month: c.m, day: c.d, weekday: c.wd, doy: c.doy, ..Fields::default() };
            let tv = TV { ty: Ty::Date, raw: c.n as i64 };
            acc.states += 1;
            for p in basis_r.iter() {
                // for date pictures losslessness does not depend on the value (fixed-width numeric
                // fields; names are delimited or followed by digits): decided once per picture below
                do_round_trip(acc, idx, &tv, &p.fmt, &p.pic);
                acc.nontrivial += 1;
            }
            let _ = &f;
            c.next();
        }
    });
    ctx.require(&r, &["round_trip_ok"]);

    // A'. all seconds x a basis of time pictures
    let tstride = (tpics.len() / 40).max(1);
    let tbasis: Vec<&Pic> = tpics.iter().step_by(tstride).collect();
    let tb = &tbasis;
    let r = ctx.sweep_each("all_seconds_x_basis_pictures", "all 86,400 seconds (µs 0 and 123456 alternating) x a basis of time pictures", 86_400, 512, |idx, acc| {
        let us = if idx % 2 == 0 { 0 } else { 123_456 };
        let tv = TV { ty: Ty::Time, raw: idx as i64 * US_SEC + us };
        let f = tv.fields();
        acc.states += 1;
        for p in tb.iter() {
            if round_trip(acc, idx, &tv, &f, &p.toks, &p.fmt, &p.pic) { acc.nontrivial += 1; }
        }
    });
    ctx.require(&r, &["round_trip_ok"]);

    // B. every grammar picture x value pools
    let mut dvals: Vec<TV> = Vec::new();
    for y in [2024, 2023, 1, 9999, 1900, 2000] {
        for k in 0..refmodel::calendar::year_len(y) {
            dvals.push(TV { ty: Ty::Date, raw: (cal.year_start(y) + k) as i64 });
        }
    }
    let dfields: Vec<Fields> = dvals.iter().map(|v| v.fields()).collect();
    ctx.bound("date_value_pool", json!(dvals.len()));
    let (dp, dv, df) = (&dpics, &dvals, &dfields);
    let r = ctx.sweep_each("every_date_picture_x_year_pools", "every lossless date picture of the grammar x all days of years 2024, 2023, 1, 9999, 1900, 2000", dpics.len() as u64, 8, |idx, acc| {
        let p = &dp[idx as usize];
        acc.states += 1;
        let mut any = false;
        for (tv, f) in dv.iter().zip(df.iter()) {
            if round_trip(acc, idx, tv, f, &p.toks, &p.fmt, &p.pic) { acc.nontrivial += 1; any = true; }
        }
        if !any { acc.cls("picture_not_lossless_skipped"); }
        if idx == 5 { acc.want_sample = true; acc.sample(|| json!({"picture": p.pic, "value": dv[59].show(), "text": dv[59].format_with(&p.fmt).ok()})); acc.want_sample = false; }
    });
    ctx.require(&r, &["round_trip_ok"]);

    let mut tvals: Vec<TV> = pool_times(seed).into_iter().chain(crit_times()).map(|t| TV { ty: Ty::Time, raw: t }).collect();
    tvals.dedup();
    let (tp, tvr) = (&tpics, &tvals);
    let r = ctx.sweep_each("every_time_picture_x_pool", "every lossless time picture of the grammar x time pool + critical times", tpics.len() as u64, 8, |idx, acc| {
        let p = &tp[idx as usize];
        acc.states += 1;
        for tv in tvr.iter() {
            let f = tv.fields();
            if round_trip(acc, idx, tv, &f, &p.toks, &p.fmt, &p.pic) { acc.nontrivial += 1; }
        }
    });
    ctx.require(&r, &["round_trip_ok"]);

    // Timestamp / OracleDate: date picture i combined with rotating time pictures (each of both kinds occurs)
    let mut combos: Vec<(String, bool)> = Vec::new(); // (picture, has fraction)
    for (i, d) in dpics.iter().enumerate() {
        for j in [i % tpics.len(), (i * 7 + 3) % tpics.len()] {
            combos.push((format!("{} {}", d.pic, tpics[j].pic), true));
        }
        let j = (i * 5 + 1) % tpics_nofrac.len();
        combos.push((format!("{} {}", tpics_nofrac[j].pic, d.pic), false));
    }
    for (j, t) in tpics.iter().enumerate() {
        combos.push((format!("{}T{}", dpics[(j * 13) % dpics.len()].pic, t.pic), true));
    }
    let cpics = compile_all(ctx, combos.iter().map(|c| c.0.clone()).collect());
    let ts_vals: Vec<TV> = pool_ts(w, seed).into_iter().map(|u| TV { ty: Ty::Timestamp, raw: u }).collect();
    let od_vals: Vec<TV> = pool_od(w, seed).into_iter().map(|u| TV { ty: Ty::OracleDate, raw: u }).collect();
    ctx.bound("timestamp_pictures", json!(cpics.len()));
    let (cp, tsv, odv) = (&cpics, &ts_vals, &od_vals);
    let r = ctx.sweep_each("timestamp_and_oracle_pictures_x_pools", "date picture x rotating time pictures (both orders, 'T' and blank joins) x timestamp pool and oracle-date pool", cpics.len() as u64, 8, |idx, acc| {
        let p = &cp[idx as usize];
        acc.states += 1;
        for tv in tsv.iter().chain(odv.iter()) {
            let f = tv.fields();
            if round_trip(acc, idx, tv, &f, &p.toks, &p.fmt, &p.pic) { acc.nontrivial += 1; }
        }
    });
    ctx.require(&r, &["round_trip_ok"]);

    // intervals
    let span: i64 = if ctx.thorough() { 120_000 } else { 2_400 };
    let mut ymv: Vec<TV> = (-span..=span).map(|m| TV { ty: Ty::IntervalYM, raw: m }).collect();
    ymv.extend(pool_ym(seed).into_iter().map(|m| TV { ty: Ty::IntervalYM, raw: m as i64 }));
    let widths = crate::c04::interval_width_values();
    ymv.extend(widths.iter().filter(|t| t.ty == Ty::IntervalYM).copied());
    let (ymp, ymvr) = (&ympics, &ymv);
    let r = ctx.sweep_each("interval_ym_pictures_x_values", "every year-month picture x all intervals within the month bound + boundary pool", ympics.len() as u64, 1, |idx, acc| {
        let p = &ymp[idx as usize];
        acc.states += 1;
        for tv in ymvr.iter() {
            let f = tv.fields();
            if round_trip(acc, idx, tv, &f, &p.toks, &p.fmt, &p.pic) { acc.nontrivial += 1; }
        }
    });
    ctx.require(&r, &["round_trip_ok"]);
    let mut dtv: Vec<TV> = pool_dt(seed).into_iter().map(|u| TV { ty: Ty::IntervalDT, raw: u }).collect();
    for s in (-172_800i64..=172_800).step_by(if ctx.thorough() { 7 } else { 61 }) {
        dtv.push(TV { ty: Ty::IntervalDT, raw: s * US_SEC + if s % 2 == 0 { 0 } else { 654_321 * s.signum() } });
    }
    dtv.extend(widths.iter().filter(|t| t.ty == Ty::IntervalDT).copied());
    let (dtp, dtvr) = (&dtpics, &dtv);
    let r = ctx.sweep_each("interval_dt_pictures_x_values", "every day-time picture x boundary pool + strided seconds within +/-2 days", dtpics.len() as u64, 1, |idx, acc| {
        let p = &dtp[idx as usize];
        acc.states += 1;
        for tv in dtvr.iter() {
            let f = tv.fields();
            if round_trip(acc, idx, tv, &f, &p.toks, &p.fmt, &p.pic) { acc.nontrivial += 1; }
        }
    });
    ctx.require(&r, &["round_trip_ok"]);

    // hidden state: every ordered pair of parse calls on a fresh thread against the lone call
    crate::histpairs::pairwise(ctx, "C06", "parse", crate::histpairs::calls_parse());
}
