//! C14 — scaling an interval (or a time of day) by a float truncates toward zero and
//! classifies bad operands.

use crate::common::*;
use crate::pools::*;
use explorer::serde_json::json;
use explorer::{Acc, Ctx};
use refmodel::exact::{decode, ge_two_pow_1024, le_f64_max, Band, Rat};
use sqldatetime::{Error, IntervalDT, IntervalYM, Time};

const TWO53: i128 = 1 << 53;

#[derive(Clone, Copy, Debug, PartialEq)]
pub enum Recv {
    Ym,
    Dt,
    Time,
}

fn run_impl(recv: Recv, x: i64, k: f64, div: bool) -> Result<Result<i128, Error>, ()> {
    guard(|| match recv {
        Recv::Ym => {
            let iv = IntervalYM::try_from_months(x as i32).unwrap();
            if div { iv.div_f64(k) } else { iv.mul_f64(k) }.map(|r| r.months() as i128)
        }
        Recv::Dt => {
            let iv = IntervalDT::try_from_usecs(x).unwrap();
            if div { iv.div_f64(k) } else { iv.mul_f64(k) }.map(|r| r.usecs() as i128)
        }
        Recv::Time => {
            let t = Time::try_from_usecs(x).unwrap();
            if div { t.div_f64(k) } else { t.mul_f64(k) }.map(|r| r.usecs() as i128)
        }
    })
}

/// Reference verdict: `Ok(class)` when the observed outcome is admissible, `Err(expected)` otherwise.
pub fn judge(x: i128, k: f64, div: bool, limit: i128, got: &Result<i128, Error>) -> Result<&'static str, String> {
    if div && k == 0.0 {
        return match got { Err(Error::DivideByZero) => Ok("divide_by_zero"), _ => Err("Err(DivideByZero)".into()) };
    }
    if k.is_nan() {
        return match got { Err(Error::InvalidNumber) => Ok("nan_operand"), _ => Err("Err(InvalidNumber)".into()) };
    }
    if k.is_infinite() {
        if div {
            return match got { Ok(0) => Ok("divide_by_infinity_is_zero"), _ => Err("Ok(0)".into()) };
        }
        if x == 0 {
            return match got { Err(Error::InvalidNumber) => Ok("zero_times_infinity"), _ => Err("Err(InvalidNumber) (0 x infinity is NaN)".into()) };
        }
        return match got { Err(Error::NumericOverflow) => Ok("infinite_result"), _ => Err("Err(NumericOverflow)".into()) };
    }
    let kp = Rat::from_parts(decode(k).unwrap());
    let xr = Rat::from_int(x);
    let p = if div { xr.div(&kp) } else { xr.mul(&kp) };
    let band = Band::relative(&p, 52);
    // does the double-precision result overflow to infinity?
    let lo_abs = if band.lo.abs().cmp(&band.hi.abs()) == std::cmp::Ordering::Less { band.lo.abs() } else { band.hi.abs() };
    let hi_abs = if band.lo.abs().cmp(&band.hi.abs()) == std::cmp::Ordering::Less { band.hi.abs() } else { band.lo.abs() };
    if ge_two_pow_1024(&lo_abs) {
        // finite operands whose real product / quotient exceeds the double range: "computed to double precision" it is
        // an infinite result (numeric overflow); read as a real number it is "a finite result outside the interval
        // range" (interval-range error).  The wording supports both classifications, so both are admitted.
        return match got { Err(Error::NumericOverflow) => Ok("infinite_result"), Err(Error::IntervalOutOfRange) => Ok("finite_result_beyond_double_range"), _ => Err("Err(NumericOverflow) or Err(IntervalOutOfRange) (the finite real result exceeds the double range)".into()) };
    }
    if !le_f64_max(&hi_abs) {
        return match got { Err(Error::NumericOverflow) | Err(Error::IntervalOutOfRange) => Ok("at_double_range_edge"), _ => Err("Err(NumericOverflow) or Err(IntervalOutOfRange)".into()) };
    }
    match got {
        Ok(r) => {
            if r.abs() > limit {
                return Err(format!("a value within +/-{limit} or Err(IntervalOutOfRange)"));
            }
            if !band.admits_trunc(*r) {
                return Err(format!("trunc toward zero of the real {} (within relative 2^-52)", if div { "quotient" } else { "product" }));
            }
            // exactness is promised for multiplication only ("exactly x*k for integer k while
            // |x*k| < 2^53"): exact operand conversion + exactly representable integer product
            if !div && x.abs() < TWO53 {
                for cand in [*r - 1, *r, *r + 1] {
                    if cand.abs() < TWO53 && p.cmp_int(cand) == std::cmp::Ordering::Equal && cand != *r {
                        return Err(format!("exactly {cand} (the real result is that integer and is exactly representable)"));
                    }
                }
            }
            Ok(if *r == 0 { "ok_zero" } else if p.cmp_int(*r) == std::cmp::Ordering::Equal { "ok_exact" } else { "ok_truncated" })
        }
        Err(Error::IntervalOutOfRange) => {
            if band.admits_trunc_beyond(limit) { Ok("interval_range_error") } else { Err("Ok(value): the truncated result is inside the interval range".into()) }
        }
        Err(e) => Err(format!("a value or Err(IntervalOutOfRange), not Err({e:?})")),
    }
}

fn one(acc: &mut Acc, idx: u64, recv: Recv, x: i64, k: f64, div: bool) {
    let limit: i128 = match recv { Recv::Ym => 2_136_000_000, _ => 100_000_000 * US_DAY as i128 };
    let op = if div { "div_f64" } else { "mul_f64" };
    acc.states += 1;
    acc.t(1);
    acc.traces += 1;
    let got = run_impl(recv, x, k, div);
    let got = match got {
        Ok(g) => g,
        Err(()) => { acc.fail(&format!("C14:{recv:?}:{op}:panic"), idx, || (format!("{recv:?}({x}).{op}({k:?})"), "a value or an Error".into(), "panic".into(), String::new())); return; }
    };
    match judge(x as i128, k, div, limit, &got) {
        Ok(class) => { acc.cls(class); if class != "ok_exact" && class != "ok_zero" { acc.nontrivial += 1; } }
        Err(expected) => {
            let kind = match &got { Ok(_) => "wrong-value", Err(_) => "wrong-classification" };
            acc.fail(&format!("C14:{recv:?}:{op}:{kind}"), idx, || {
                (format!("{recv:?}({x}).{op}({k:?} = bits {:#018x})", k.to_bits()), expected, format!("{got:?}"),
                 format!("// receiver {recv:?} with raw count {x}; call .{op}(f64::from_bits({:#018x}))", k.to_bits()))
            });
            return;
        }
    }
    // sign symmetry: (-x) op k = -(x op k) = x op (-k)
    if k.is_nan() { return; }
    let neg = |r: &Result<i128, Error>| r.clone().map(|v| -v);
    acc.t(1);
    if let Ok(g2) = run_impl(recv, x, -k, div) {
        if g2 != neg(&got) {
            acc.fail(&format!("C14:{recv:?}:{op}:sign-asymmetry"), idx, || (format!("{recv:?}({x}).{op}({k:?}) vs .{op}({:?})", -k), format!("{:?}", neg(&got)), format!("{g2:?}"), String::new()));
        }
    }
    if recv != Recv::Time {
        acc.t(1);
        if let Ok(g3) = run_impl(recv, -x, k, div) {
            if g3 != neg(&got) {
                acc.fail(&format!("C14:{recv:?}:{op}:sign-asymmetry"), idx, || (format!("{recv:?}({x}).{op}({k:?}) vs {recv:?}({}).{op}({k:?})", -x), format!("{:?}", neg(&got)), format!("{g3:?}"), String::new()));
            }
        }
    }
}

pub fn run(ctx: &mut Ctx) {
    let seed = ctx.seed;
    let mut fs = pool_f64(seed);
    let ym = pool_ym(seed);
    let dt = pool_dt(seed);
    let mut tm = pool_times(seed);
    tm.extend(crit_times());
    tm.sort();
    tm.dedup();
    // operands that put the result next to the interval limits and next to 2^53
    // multipliers that put the product strictly between a limit and the next integer
    for k in [1.0f64, 2.0, 3.0, 7.0, 12.0] {
        for eps in [0.25f64, 0.5, 0.999] {
            fs.push((2_136_000_000.0 + eps) / k);
            fs.push(-(2_136_000_000.0 + eps) / k);
        }
    }
    for x in [3.0f64, 7.0, 1e6, 86_400e6] {
        fs.push(2_136_000_000.0 / x);
        fs.push(8.64e18 / x);
        fs.push(9_007_199_254_740_992.0 / x);
    }
    let grid: i32 = if ctx.thorough() { 4000 } else { 400 };
    for i in -grid..=grid {
        fs.push(i as f64 / 8.0);
        fs.push(i as f64 / 10.0);
    }
    ctx.bound("f64_grids", json!(format!("i/8 and i/10 for |i| <= {grid}")));
    ctx.rule("a case is one (receiver value, float operand, mul|div) triple at a distinct sweep index; non-trivial = the result is not an exactly representable in-range integer (truncation, classification or range decision exercised)");
    ctx.assume("reference: exact rational arithmetic on the decoded double (sign, mantissa, exponent) with a relative band of 2^-52; no floating-point operation decides the expected result");
    ctx.bound("operands", json!({"f64": fs.len(), "interval_ym": ym.len(), "interval_dt": dt.len(), "time": tm.len()}));
    let (fs, ym, dt, tm) = (&fs, &ym, &dt, &tm);
    let nf = fs.len() as u64;
    let recvs: [(Recv, &Vec<i64>); 3] = [(Recv::Ym, &ym.iter().map(|&v| v as i64).collect()), (Recv::Dt, dt), (Recv::Time, tm)];
    for (recv, pool) in recvs.iter() {
        let name = format!("{recv:?}_x_f64");
        let n = pool.len() as u64 * nf * 2;
        let r = ctx.sweep_each(&name, "receiver pool x f64 alphabet x {mul, div}, plus sign symmetry", n, 256, |idx, acc| {
            let div = idx % 2 == 1;
            let k = fs[((idx / 2) % nf) as usize];
            let x = pool[(idx / 2 / nf) as usize];
            if idx == 7 { acc.want_sample = true; }
            acc.sample(|| json!({"receiver": format!("{recv:?}"), "raw": x, "operand": format!("{k:?}"), "div": div, "impl": format!("{:?}", run_impl(*recv, x, k, div))}));
            acc.want_sample = false;
            one(acc, idx, *recv, x, k, div);
        });
        ctx.require(&r, &["divide_by_zero", "nan_operand", "divide_by_infinity_is_zero", "zero_times_infinity", "infinite_result", "ok_exact", "ok_truncated", "interval_range_error"]);
    }

    // a complete small product: every month / microsecond count of a window x every multiple of 1/16 of a window
    let (xw, kw): (i64, i64) = if ctx.thorough() { (1200, 4096) } else { (120, 512) };
    ctx.bound("complete_small_product", json!(format!("counts -{xw}..={xw} x operands i/16 for |i| <= {kw}")));
    let nk = (2 * kw + 1) as u64;
    let r = ctx.sweep_each("complete_small_product", "every count in the window (as months, as microseconds and as microseconds x 86,400,000,000 / 1,200 for day-sized values) x every operand i/16 in the window x {mul, div}", (2 * xw + 1) as u64 * nk * 2, 4096, |idx, acc| {
        let div = idx % 2 == 1;
        let k = ((idx / 2) % nk) as i64 - kw;
        let x = (idx / 2 / nk) as i64 - xw;
        let kf = k as f64 / 16.0;
        one(acc, idx, Recv::Ym, x, kf, div);
        one(acc, idx, Recv::Dt, x, kf, div);
        one(acc, idx, Recv::Dt, x * 72_000_000, kf, div);
        if x >= 0 { one(acc, idx, Recv::Time, x * 71_999_999, kf, div); }
    });
    ctx.require(&r, &["divide_by_zero", "ok_exact", "ok_truncated"]);

    // hidden state: every ordered pair of (receiver, operand) cases of a small structured alphabet, each pair on a
    // fresh thread; the second result must be what the reference says for the second case alone
    let hrecv: Vec<i64> = vec![0, 1, 2, 3, 11, 12, 13, 16, 24, 25, 1000, 1001];
    let mut hk: Vec<f64> = Vec::new();
    for b in [1.0f64, 2.0, 0.5, 3.0] {
        for u in -2i64..=2 { hk.push(f64::from_bits((b.to_bits() as i64 + u) as u64)); }
    }
    let hc: Vec<(i64, f64)> = hrecv.iter().flat_map(|&x| hk.iter().map(move |&k| (x, k))).collect();
    let hcr = &hc;
    let nh = hc.len() as u64;
    let r = ctx.sweep_each("two_step_histories_on_fresh_threads", "every ordered pair of cases (months in {0,1,2,3,11,12,13,16,24,25,1000,1001}) x (multipliers 1, 2, 0.5, 3 and their +/-2 ulp neighbours): IntervalYM and IntervalDT mul / div of the second case after the first, on a fresh thread", nh * nh, 256, |idx, acc| {
        let (x1, k1) = hcr[(idx / nh) as usize];
        let (x2, k2) = hcr[(idx % nh) as usize];
        acc.states += 1;
        acc.t(4);
        acc.traces += 1;
        acc.nontrivial += 1;
        let res = std::thread::scope(|s| s.spawn(|| {
            let mut out = Vec::new();
            for recv in [Recv::Ym, Recv::Dt] {
                for div in [false, true] {
                    let _ = run_impl(recv, x1, k1, div);
                    out.push((recv, div, run_impl(recv, x2, k2, div)));
                }
            }
            out
        }).join());
        acc.cls("second_case");
        match res {
            Ok(outs) => for (recv, div, got) in outs {
                let limit: i128 = if recv == Recv::Ym { 2_136_000_000 } else { 100_000_000 * US_DAY as i128 };
                match got {
                    Ok(g) => if let Err(exp) = judge(x2 as i128, k2, div, limit, &g) {
                        acc.fail(&format!("C14:{recv:?}:history:result-depends-on-an-earlier-call"), idx, || (format!("{recv:?}({x1}) {} {k1:?}, then {recv:?}({x2}) {} {k2:?}", if div { "/" } else { "*" }, if div { "/" } else { "*" }), exp, format!("{g:?}"), String::new()));
                    },
                    Err(()) => acc.fail("C14:history:panic", idx, || (format!("{recv:?}({x2}) with {k2:?}"), "no panic".into(), "panic".into(), String::new())),
                }
            },
            Err(_) => acc.fail("C14:history:panic", idx, || ("thread".into(), "no panic".into(), "panic".into(), String::new())),
        }
    });
    ctx.require(&r, &["second_case"]);

    // integer multipliers: exactly x*k while |x*k| < 2^53 — every k in -300..=300 on a structured receiver set
    let ints: Vec<i64> = (-300..=300).collect();
    let mut xs: Vec<i64> = Vec::new();
    for e in 0..=44 { xs.push(1i64 << e); xs.push((1i64 << e) - 1); xs.push((1i64 << e) + 1); }
    for x in [999_999i64, 1_000_000, 86_399_999_999, 123_456_789_012, 30_000_000_000_000] { xs.push(x); }
    xs.sort();
    xs.dedup();
    let (ints, xs) = (&ints, &xs);
    let r = ctx.sweep_each("integer_multipliers_exact", "IntervalDT receivers {2^e, 2^e +/- 1 (e <= 44), ...} x every integer k in -300..=300: result must be exactly x*k", (xs.len() * ints.len()) as u64, 1024, |idx, acc| {
        let x = xs[idx as usize / ints.len()];
        let k = ints[idx as usize % ints.len()];
        acc.states += 1;
        acc.t(1);
        let exact = x as i128 * k as i128;
        let got = run_impl(Recv::Dt, x, k as f64, false);
        if exact.abs() < TWO53 {
            acc.cls("exact_product");
            if got != Ok(Ok(exact)) {
                acc.fail("C14:Dt:mul_f64:integer-multiple-not-exact", idx, || (format!("IntervalDT({x}).mul_f64({k}.0)"), format!("Ok({exact})"), format!("{got:?}"),
                    format!("assert_eq!(IntervalDT::try_from_usecs({x}).unwrap().mul_f64({k}.0).unwrap().usecs(), {exact});")));
            }
        } else {
            acc.cls("beyond_2_53");
        }
    });
    ctx.require(&r, &["exact_product"]);
    // hidden state through failing calls and shared memos: model-free pairwise history independence over the scaling operations
    let scal = |op: crate::optable::Op| { use crate::optable::Op::*; matches!(op, TMul | TDiv | YMul | YDiv | IMul | IDiv) };
    let hist_calls = crate::histpairs::calls_ops(true, &scal);
    crate::histpairs::pairwise(ctx, "C14", "scaling", hist_calls);
    let hist_calls_full = crate::histpairs::calls_ops(false, &scal);
    crate::histpairs::pairwise_same_thread(ctx, "C14", "scaling", hist_calls_full);
}
