//! C08 — day and microsecond arithmetic is exact, invertible and exactly range-checked.

use crate::closure::*;
use crate::common::*;
use crate::fref::*;
use crate::optable::*;
use crate::pools::*;
use explorer::serde_json::json;
use explorer::{Acc, Ctx};
use sqldatetime::Date;

pub fn day_fraction_offsets(seed: u64) -> Vec<f64> {
    let mut v = pool_f64(seed);
    let day = 86_400_000_000f64;
    for t in [1.0f64, 2.0, 3.0, 499_999.0, 500_000.0, 500_001.0, 999_999.0, 1e6, 1_500_000.0, 0.5, 1.5, 2.5, 0.49, 0.51, 86_399_999_999.0, 43_200_000_000.5] {
        v.push(t / day);
        v.push(-t / day);
    }
    for d in [0.5f64, 1.5, 2.25, 1.0 / 3.0, 1.0 / 24.0, 1.0 / 1440.0, 1.0 / 86_400.0, 365.0, 366.0, 36_524.0, 146_097.0, 1e-5, 1e-11, 1e-12, 123.456_789, 3_652_058.999_999, 0.000_011_574_074_074_074_074] {
        v.push(d);
        v.push(-d);
    }
    // large whole-day counts plus a whole number of seconds (non-dyadic): days x 86400 looks integral in f64
    for k in [65_536.0f64, 100_000.0, 200_000.0, 1_000_000.0, 3_000_000.0] {
        for j in [1.0f64, 5.0, 43_200.0, 86_399.0] {
            v.push(k + j / 86_400.0);
            v.push(-(k + j / 86_400.0));
        }
    }
    for n in [427_008_001.0f64, 500_000_001.0, 600_000_003.0, 700_000_005.0, 853_999_999.0, 427_008_003.0] {
        v.push(n / 8192.0);
        v.push(-n / 8192.0);
    }
    v.push(100_000.000_057_870_38);
    v.push(200_000.000_034_722_2);
    v
}

pub fn run(ctx: &mut Ctx) {
    let w = world();
    let cal = &w.cal;
    let seed = ctx.seed;
    ctx.rule("a case is one (receiver, operand, operation) triple at a distinct sweep index or closure transition; non-trivial = the exact result is outside the result type's range (the range gate must fire) or the operation is a subtraction variant / inverse pair");
    ctx.assume("reference: 128-bit integer arithmetic on the raw day / month / microsecond counts and the documented ranges; exact rational band for fractional days");

    // 1. closure restricted to linear operations (reference in lock step)
    let thorough = ctx.thorough();
    let ops = Operands::standard(seed, thorough);
    let sd = seeds(seed);
    let (r, _) = run_closure(ctx, "linear_closure", Mode::Linear, if thorough { 4 } else { 3 }, if thorough { 3 } else { 99 }, &ops, &sd);
    ctx.require(&r, &["ok_value", "error", "scalar"]);

    // 2. full cross product of the typed pools for every linear operation
    let dates = pool_dates(w, seed);
    let times = pool_times(seed);
    let tss = pool_ts(w, seed);
    let yms = pool_ym(seed);
    let dts = pool_dt(seed);
    let ods = pool_od(w, seed);
    let i32s: Vec<i32> = {
        let mut v = pool_i32();
        v.extend_from_slice(&[7, -7, 146_097, -146_097, 719_162, -719_162, 2_932_896, -2_932_896, 2_932_897]);
        v
    };
    let mut cases: Vec<(Val, Op, Arg)> = Vec::new();
    for &op in ALL_OPS {
        let (tag, kind, linear) = op.sig();
        if !linear {
            continue;
        }
        let recv: Vec<Val> = match tag {
            0 => dates.iter().map(|&v| Val::Date(v)).collect(),
            1 => times.iter().map(|&v| Val::Time(v)).collect(),
            2 => tss.iter().map(|&v| Val::Ts(v)).collect(),
            3 => yms.iter().map(|&v| Val::Ym(v)).collect(),
            4 => dts.iter().map(|&v| Val::Dt(v)).collect(),
            _ => ods.iter().map(|&v| Val::Od(v)).collect(),
        };
        let args: Vec<Arg> = match kind {
            ArgKind::I32 => i32s.iter().map(|&v| Arg::I32(v)).collect(),
            ArgKind::Date => dates.iter().map(|&v| Arg::V(Val::Date(v))).collect(),
            ArgKind::Time => times.iter().map(|&v| Arg::V(Val::Time(v))).collect(),
            ArgKind::Ts => tss.iter().map(|&v| Arg::V(Val::Ts(v))).collect(),
            ArgKind::Ym => yms.iter().map(|&v| Arg::V(Val::Ym(v))).collect(),
            ArgKind::Dt => dts.iter().map(|&v| Arg::V(Val::Dt(v))).collect(),
            ArgKind::Od => ods.iter().map(|&v| Arg::V(Val::Od(v))).collect(),
            _ => vec![],
        };
        for r in &recv {
            for a in &args {
                cases.push((*r, op, *a));
            }
        }
    }
    ctx.bound("pools", json!({"dates": dates.len(), "times": times.len(), "timestamps": tss.len(), "interval_ym": yms.len(), "interval_dt": dts.len(), "oracle_dates": ods.len(), "i32": i32s.len()}));
    let cases = &cases;
    let r = ctx.sweep_each("pool_cross_product", "every linear operation x full cross product of the typed boundary pools, plus the inverse laws x+i-i = x, (x+i)-x = i, a-b = -(b-a)", cases.len() as u64, 1024, |idx, acc| {
        let (s, op, a) = cases[idx as usize];
        acc.states += 1;
        let mut local = Acc::new("pool_cross_product");
        let res = check_transition(Mode::Linear, &s, op, a, &mut local);
        // re-key the violations of the helper to this sweep index
        for v in local.violations() {
            let v = v.clone();
            acc.fail(&v.sig, idx, || (v.what.clone(), v.expected.clone(), v.observed.clone(), v.snippet.clone()));
        }
        acc.transitions += local.transitions;
        acc.traces += local.traces;
        acc.nontrivial += local.nontrivial;
        acc.cls(if res.is_some() { "ok_value" } else { "error_or_scalar" });
        if idx == 0 { acc.sample(|| json!({"state": format!("{s:?}"), "op": format!("{op:?}"), "arg": format!("{a:?}"), "impl": format!("{:?}", step_impl(s, op, a))})); }
        // inverse laws through the real code
        use Op::*;
        let inv = match op {
            DAddDays => Some(DSubDays), DSubDays => Some(DAddDays), SAddDt => Some(SSubDt), SSubDt => Some(SAddDt), SAddTime => Some(SSubTime), SSubTime => Some(SAddTime),
            YAdd => Some(YSub), YSub => Some(YAdd), IAdd => Some(ISub), ISub => Some(IAdd), _ => None,
        };
        if let (Some(inv), Some(mid)) = (inv, res) {
            // x + i - i = x (mid exists)
            acc.t(1);
            let back = step_impl(mid, inv, a);
            if back != Out::V(s) {
                acc.fail(&format!("C08:{op:?}:inverse-does-not-return"), idx, || (format!("({s:?} {op:?} {a:?}) {inv:?} {a:?}"), format!("{s:?}"), format!("{back:?}"), String::new()));
            }
        }
        match (op, res, s, a) {
            // (x + i) - x = i
            (SAddDt, Some(Val::Ts(mid)), Val::Ts(x), Arg::V(Val::Dt(i))) => {
                acc.t(1);
                let d = step_impl(Val::Ts(mid), SSubTs, Arg::V(Val::Ts(x)));
                if d != Out::V(Val::Dt(i)) { acc.fail("C08:SAddDt:difference-does-not-recover-interval", idx, || (format!("(Ts({x}) + Dt({i})) - Ts({x})"), format!("Dt({i})"), format!("{d:?}"), String::new())); }
            }
            // a - b = -(b - a)
            (SSubTs, _, Val::Ts(x), Arg::V(Val::Ts(y))) => {
                acc.t(1);
                let (p, q) = (step_impl(Val::Ts(x), SSubTs, Arg::V(Val::Ts(y))), step_impl(Val::Ts(y), SSubTs, Arg::V(Val::Ts(x))));
                if let (Out::V(Val::Dt(p)), Out::V(Val::Dt(q))) = (&p, &q) { if *p != -*q { acc.fail("C08:SSubTs:not-antisymmetric", idx, || (format!("Ts({x}) - Ts({y}) vs reverse"), format!("{}", -*q), format!("{p}"), String::new())); } }
            }
            (DSubDate, _, Val::Date(x), Arg::V(Val::Date(y))) => {
                acc.t(1);
                let (p, q) = (step_impl(Val::Date(x), DSubDate, Arg::V(Val::Date(y))), step_impl(Val::Date(y), DSubDate, Arg::V(Val::Date(x))));
                if let (Out::I32(p), Out::I32(q)) = (&p, &q) { if *p != -*q { acc.fail("C08:DSubDate:not-antisymmetric", idx, || (format!("Date({x}) - Date({y}) vs reverse"), format!("{}", -*q), format!("{p}"), String::new())); } }
            }
            _ => {}
        }
    });
    ctx.require(&r, &["ok_value", "error_or_scalar"]);

    // 3. all dates x day offsets (incl. to each range end exactly and one past)
    let total = cal.total_days() as u64;
    let r = ctx.sweep("dates_x_day_offsets", "all dates x {0, +/-1, +/-31, +/-365, +/-366, to each range end, one past each end, i32::MIN, i32::MAX} x {add_days, sub_days}", total, 4096, |range, acc| {
        for idx in range {
            let n = cal.min_day + idx as i32;
            let date = Date::try_from_days(n).unwrap();
            let to_min = cal.min_day as i64 - n as i64;
            let to_max = cal.max_day as i64 - n as i64;
            let offs: [i64; 17] = [0, 1, -1, 31, -31, 365, -365, 366, -366, to_min, to_min - 1, to_max, to_max + 1, i32::MIN as i64, i32::MAX as i64, i32::MIN as i64 + 1, 146_097];
            acc.states += 1;
            for &k in &offs {
                let k = k as i32;
                for sub in [false, true] {
                    acc.t(1);
                    acc.traces += 1;
                    let exact = if sub { n as i128 - k as i128 } else { n as i128 + k as i128 };
                    let in_range = exact >= cal.min_day as i128 && exact <= cal.max_day as i128;
                    let got = guard(|| if sub { date.sub_days(k) } else { date.add_days(k) }.map(|d| d.days()));
                    let ok = match &got { Ok(Ok(v)) => in_range && *v as i128 == exact, Ok(Err(_)) => !in_range, Err(()) => false };
                    if in_range { acc.cls("ok_value") } else { acc.cls("range_error"); acc.nontrivial += 1; }
                    if !ok {
                        let opn = if sub { "sub_days" } else { "add_days" };
                        acc.fail(&format!("C08:Date:{opn}:not-exact-or-range-gate-wrong"), idx, || (format!("Date(day {n}).{opn}({k})"), if in_range { format!("Ok(day {exact})") } else { "Err".into() }, format!("{got:?}"),
                            format!("let r = Date::try_from_days({n}).unwrap().{opn}({k});")));
                    }
                }
            }
        }
    });
    ctx.require(&r, &["ok_value", "range_error"]);

    // 4. fractional-day offsets on timestamps
    let offs = day_fraction_offsets(seed);
    ctx.bound("day_fraction_offsets", json!(offs.len()));
    let (tss_r, offs_r) = (&tss, &offs);
    let no = offs.len() as u64;
    let r = ctx.sweep_each("timestamp_add_sub_days_f64", "timestamp pool x fractional / integer / extreme day offsets x {add_days, sub_days}: offset rounded to the nearest microsecond (exact rational band)", tss.len() as u64 * no * 2, 256, |idx, acc| {
        let sub = idx % 2 == 1;
        let f = offs_r[((idx / 2) % no) as usize];
        let u = tss_r[(idx / 2 / no) as usize];
        acc.states += 1;
        acc.t(1);
        acc.traces += 1;
        let got = step_impl(Val::Ts(u), if sub { Op::SSubDays } else { Op::SAddDays }, Arg::F64(f));
        let g: Result<i64, sqldatetime::Error> = match &got {
            Out::V(Val::Ts(v)) => Ok(*v),
            Out::Err(_) => Err(sqldatetime::Error::DateOutOfRange),
            other => { let other = other.clone(); acc.fail("C08:Timestamp:add_days:panic-or-wrong-kind", idx, || (format!("Timestamp({u}).{}({f:?})", if sub { "sub_days" } else { "add_days" }), "value or error".into(), format!("{other:?}"), String::new())); return; }
        };
        match judge_ts_add_days(u, if sub { -f } else { f }, &g) {
            Ok(c) => { acc.cls(c); if c != "ok_exact_product" { acc.nontrivial += 1; } }
            Err(exp) => acc.fail(&format!("C08:Timestamp:{}:offset-not-nearest-microsecond-or-range-gate-wrong", if sub { "sub_days" } else { "add_days" }), idx, || {
                (format!("Timestamp({u} µs).{}({f:?} = bits {:#018x})", if sub { "sub_days" } else { "add_days" }, f.to_bits()), exp, format!("{got:?}"),
                 format!("let r = Timestamp::try_from_usecs({u}).unwrap().{}(f64::from_bits({:#018x}));", if sub { "sub_days" } else { "add_days" }, f.to_bits()))
            }),
        }
    });
    ctx.require(&r, &["ok_exact_product", "ok_within_band", "range_error", "nan_or_infinite_days"]);
    // hidden state: every ordered pair of operation calls on a fresh thread against the lone call (no model involved)
    let hist_calls = crate::histpairs::calls_ops(true, &|op| { use crate::optable::Op::*; op.sig().2 || matches!(op, SAddDays | SSubDays | YAdd | YSub | IAdd | ISub) });
    crate::histpairs::pairwise(ctx, "C08", "linear_arithmetic", hist_calls);
    let hist_calls_full = crate::histpairs::calls_ops(false, &|op| { use crate::optable::Op::*; op.sig().2 || matches!(op, SAddDays | SSubDays | YAdd | YSub | IAdd | ISub) });
    crate::histpairs::pairwise_same_thread(ctx, "C08", "linear_arithmetic", hist_calls_full);
}
