//! C13 — intervals decompose into sign and fields uniquely and negate symmetrically.

use crate::common::*;
use explorer::serde_json::json;
use explorer::{Acc, Ctx};
use sqldatetime::{DateTime, IntervalDT, IntervalYM, Sign};

const YM_LIMIT: i64 = 178_000_000 * 12;
const DT_LIMIT: i64 = 100_000_000 * US_DAY;

#[inline]
fn ym_ok(m: i32, iv: IntervalYM) -> bool {
    let a = (m as i64).abs();
    let (yy, mm) = ((a / 12) as u32, (a % 12) as u32);
    let (s, y, mo) = iv.extract();
    let sign_ok = if m < 0 { s == Sign::Negative } else { s == Sign::Positive };
    let back = IntervalYM::try_from_ym(y, mo).map(|p| if m < 0 { -p } else { p });
    let neg = -iv;
    let unchecked = unsafe { IntervalYM::from_months_unchecked(m) == iv && (m < 0 || IntervalYM::from_ym_unchecked(yy, mm) == iv) };
    sign_ok
        && unchecked
        && iv.months() == m
        && (y, mo) == (yy, mm)
        && back == Ok(iv)
        && IntervalYM::is_valid_ym(y, mo)
        && neg.months() == -m
        && -neg == iv
        && IntervalYM::try_from_months(-m) == Ok(neg)
        && iv.year() == Some(m / 12)
        && iv.month() == Some(m % 12)
        && iv.day().is_none()
        && iv.hour().is_none()
        && iv.minute().is_none()
        && iv.second().is_none()
        && DateTime::date(&iv).is_none()
}

fn dt_check(acc: &mut Acc, idx: u64, u: i64) {
    acc.states += 1;
    acc.t(1);
    acc.traces += 1;
    let valid = (-DT_LIMIT..=DT_LIMIT).contains(&u);
    let got = guard(|| IntervalDT::try_from_usecs(u));
    let iv = match (got, valid) {
        (Ok(Ok(iv)), true) => iv,
        (Ok(Err(_)), false) => { acc.cls("rejected_out_of_range"); acc.nontrivial += 1; return; }
        (other, _) => {
            acc.fail("C13:IntervalDT:try_from_usecs:acceptance-not-exact", idx, || (format!("IntervalDT::try_from_usecs({u})"), format!("valid={valid}"), format!("{other:?}"), format!("let _ = IntervalDT::try_from_usecs({u});")));
            return;
        }
    };
    let a = (u as i128).abs();
    let day = US_DAY as i128;
    let (d, h, mi, s, f) = ((a / day) as u32, (a % day / US_HOUR as i128) as u32, (a % US_HOUR as i128 / US_MIN as i128) as u32, (a % US_MIN as i128 / US_SEC as i128) as u32, (a % US_SEC as i128) as u32);
    let ok = guard(|| {
        let (sg, ed, eh, emi, es, ef) = iv.extract();
        let sign_ok = if u < 0 { sg == Sign::Negative } else { sg == Sign::Positive };
        let back = IntervalDT::try_from_dhms(ed, eh, emi, es, ef).map(|p| if u < 0 { -p } else { p });
        let neg = -iv;
        let unchecked = unsafe { IntervalDT::from_usecs_unchecked(u) == iv && (u < 0 || IntervalDT::from_dhms_unchecked(d, h, mi, s, f) == iv) };
        sign_ok
            && unchecked
            && iv.usecs() == u
            && (ed, eh, emi, es, ef) == (d, h, mi, s, f)
            && back == Ok(iv)
            && IntervalDT::is_valid(ed, eh, emi, es, ef)
            && neg.usecs() == -u
            && -neg == iv
            && IntervalDT::try_from_usecs(-u) == Ok(neg)
            && iv.day() == Some((u / US_DAY) as i32)
            && iv.hour() == Some((u % US_DAY / US_HOUR) as i32)
            && iv.minute() == Some((u % US_HOUR / US_MIN) as i32)
            && iv.second().map(|x| (x * 1e6).round() as i64) == Some(u % US_MIN)
            && iv.year().is_none()
            && iv.month().is_none()
            && DateTime::date(&iv).is_none()
    });
    if u < 0 { acc.cls("negative"); acc.nontrivial += 1; } else { acc.cls("non_negative"); }
    if ok != Ok(true) {
        acc.fail("C13:IntervalDT:decomposition-or-negation-mismatch", idx, || {
            (format!("IntervalDT({u} µs): extract / try_from_dhms / negate / accessors"), format!("sign {} fields ({d}, {h}, {mi}, {s}, {f})", if u < 0 { "-" } else { "+" }),
             format!("{ok:?} extract={:?} day={:?} hour={:?} minute={:?} second={:?}", guard(|| iv.extract()), iv.day(), iv.hour(), iv.minute(), iv.second()),
             format!("let iv = IntervalDT::try_from_usecs({u}).unwrap(); let _ = iv.extract();"))
        });
    }
}

pub fn run(ctx: &mut Ctx) {
    ctx.rule("a case is one interval value (or one constructor field tuple) at a distinct sweep index; non-trivial = the value is negative (sign handling exercised), or the tuple is rejected");
    ctx.assume("reference: i128 division of the absolute value; documented limits +/-2,136,000,000 months and +/-8.64e18 µs");
    ctx.bound("interval_ym", json!("all 2^32 raw i32 month counts (covers all 4,272,000,001 in-range values)"));

    // all i32 through try_from_months, full decomposition for every in-range value
    let r = ctx.sweep("interval_ym_all_i32", "every i32 month count: acceptance; for all 4,272,000,001 in-range values: extract, constructor inverse, negation, accessors, ordering", 1u64 << 32, 1 << 22, |range, acc| {
        let n = range.end - range.start;
        let mut prev: Option<IntervalYM> = None;
        let (mut ok_n, mut rej_n, mut neg_n) = (0u64, 0u64, 0u64);
        for idx in range {
            let m = (idx as i64 + i32::MIN as i64) as i32;
            let valid = (-YM_LIMIT..=YM_LIMIT).contains(&(m as i64));
            match IntervalYM::try_from_months(m) {
                Ok(iv) if valid => {
                    ok_n += 1;
                    if m < 0 { neg_n += 1; }
                    if !ym_ok(m, iv) {
                        acc.fail("C13:IntervalYM:decomposition-or-negation-mismatch", idx, || {
                            (format!("IntervalYM({m} months): extract / try_from_ym / negate / accessors"), format!("sign {} years {} months {}", if m < 0 { "-" } else { "+" }, (m as i64).abs() / 12, (m as i64).abs() % 12),
                             format!("extract={:?} year={:?} month={:?} neg={}", iv.extract(), iv.year(), iv.month(), (-iv).months()),
                             format!("let iv = IntervalYM::try_from_months({m}).unwrap(); let _ = iv.extract();"))
                        });
                    }
                    if let Some(p) = prev {
                        #[allow(clippy::eq_op)]
                        let refl = iv >= iv && iv <= iv && !(iv > iv) && !(iv < iv) && iv >= p && p <= iv && !(p >= iv);
                        if !(refl && p < iv && iv > p && p != iv) {
                            acc.fail("C13:IntervalYM:ordering-not-numeric", idx, || (format!("IntervalYM({}) vs IntervalYM({m})", m - 1), "increasing".into(), format!("{:?}", p.cmp(&iv)), String::new()));
                        }
                    }
                    prev = Some(iv);
                }
                Err(_) if !valid => { rej_n += 1; prev = None; }
                other => {
                    prev = None;
                    acc.fail("C13:IntervalYM:try_from_months:acceptance-not-exact", idx, || (format!("IntervalYM::try_from_months({m})"), format!("valid={valid}"), format!("{other:?}"), format!("let _ = IntervalYM::try_from_months({m});")));
                }
            }
        }
        acc.states += n;
        acc.t(n);
        acc.traces += ok_n;
        acc.nontrivial += neg_n + rej_n;
        acc.cls_n("in_range_decomposed", ok_n);
        acc.cls_n("negative", neg_n);
        acc.cls_n("rejected_out_of_range", rej_n);
    });
    ctx.require(&r, &["in_range_decomposed", "negative", "rejected_out_of_range"]);
    ctx.add_sample(json!({"sub": "interval_ym_all_i32", "case": {"months": -25, "extract": format!("{:?}", IntervalYM::try_from_months(-25).unwrap().extract())}}));

    // IntervalDT structured set
    let mut set: Vec<i64> = Vec::new();
    let mut p = 1i64;
    while p <= 1_000_000_000_000_000_000 { for d in -1..=1 { set.push(p + d); set.push(-(p + d)); } if p == 1_000_000_000_000_000_000 { break; } p *= 10; }
    for e in 0..=62u32 { for d in -3..=3i64 { set.push((1i64 << e) + d); set.push(-((1i64 << e) + d)); } }
    for e in 0..=36u32 { for d in -1..=1i64 { let k = (1i64 << e) + d; if let Some(x) = k.checked_mul(US_SEC) { set.push(x); set.push(-x); set.push(x + 1); } } }
    for k in [3i64 << 30, 5 << 29, (1 << 31) + 12_345, (1i64 << 32) - 1] { set.push(k * US_SEC); set.push(-k * US_SEC); }
    for unit in [US_SEC, US_MIN, US_HOUR, US_DAY] {
        for k in [1i64, 2, 23, 24, 59, 60, 61, 99, 100, 365, 366, 1000, 99_999_999, 100_000_000] {
            if let Some(x) = unit.checked_mul(k) { for d in -1..=1 { set.push(x + d); set.push(-(x + d)); } }
        }
    }
    for d in -2..=2 { set.push(DT_LIMIT + d); set.push(-DT_LIMIT + d); }
    set.extend_from_slice(&[0, i64::MIN, i64::MIN + 1, i64::MAX, i64::MAX - 1]);
    for k in 0..64u64 { set.push((splitmix(ctx.seed ^ (0xD7 + k)) as i64) >> (k % 5)); }
    set.sort();
    set.dedup();
    ctx.bound("interval_dt_structured", json!(set.len()));
    let set = &set;
    let r = ctx.sweep_each("interval_dt_structured", "powers of ten and unit multiples +/-1, powers of two +/-3, range limits +/-2, i64 extremes, 64 seed-derived", set.len() as u64, 64, |idx, acc| dt_check(acc, idx, set[idx as usize]));
    ctx.require(&r, &["negative", "non_negative", "rejected_out_of_range"]);
    let span: u64 = if ctx.thorough() { 40 } else { 2 };
    ctx.bound("interval_dt_seconds", json!(format!("every second within +/-{span} days x µs {{0,1,999999}}")));
    ctx.sweep_each("interval_dt_every_second", "every second within the bound x µs {0,1,999999} (sign applied to the whole value)", (2 * span * 86_400 + 1) * 3, 1 << 14, |idx, acc| {
        let s = (idx / 3) as i64 - (span * 86_400) as i64;
        let f = [0i64, 1, 999_999][(idx % 3) as usize];
        let u = s * US_SEC + if s < 0 { -f } else { f };
        dt_check(acc, idx, u);
    });
    // ordering of IntervalDT along the structured set
    ctx.sweep_each("interval_dt_ordering", "consecutive members of the sorted structured set compare numerically", set.len() as u64 - 1, 64, |idx, acc| {
        let (a, b) = (set[idx as usize], set[idx as usize + 1]);
        acc.states += 1;
        acc.t(1);
        if let (Ok(x), Ok(y)) = (IntervalDT::try_from_usecs(a), IntervalDT::try_from_usecs(b)) {
            acc.cls("compared");
            #[allow(clippy::eq_op)]
            let refl = x >= x && x <= x && !(x > x) && !(x < x) && x == x && x.partial_cmp(&x) == Some(std::cmp::Ordering::Equal) && y >= x && x <= y && !(x >= y) && !(y <= x);
            if !(refl && x < y && y > x && x != y && x.cmp(&y) == std::cmp::Ordering::Less) {
                acc.fail("C13:IntervalDT:ordering-not-numeric", idx, || (format!("IntervalDT({a}) vs IntervalDT({b})"), "Less".into(), format!("{:?}", x.cmp(&y)), String::new()));
            }
        } else { acc.cls("skipped_out_of_range"); }
    });

    // constructor grids
    let years: Vec<u32> = vec![0, 1, 2, 177_999_999, 178_000_000, 178_000_001, 357_913_941, 357_913_942, 1 << 31, u32::MAX - 1, u32::MAX];
    let mut months: Vec<u32> = (0..=13).collect();
    months.extend_from_slice(&[255, 256, 268, 1 << 31, u32::MAX]);
    let (years, months) = (&years, &months);
    let r = ctx.sweep_each("interval_ym_constructor_grid", "year x month grid incl. u32 extremes", (years.len() * months.len()) as u64, 64, |idx, acc| {
        let y = years[idx as usize / months.len()];
        let m = months[idx as usize % months.len()];
        acc.states += 1;
        acc.t(2);
        let total = y as i128 * 12 + m as i128;
        let valid = m < 12 && total <= YM_LIMIT as i128;
        let got = guard(|| (IntervalYM::try_from_ym(y, m).map(|i| i.months()), IntervalYM::is_valid_ym(y, m)));
        let ok = match &got { Ok((Ok(v), true)) => valid && *v as i128 == total, Ok((Err(_), false)) => !valid, _ => false };
        if valid { acc.cls("accepted") } else { acc.cls("rejected"); acc.nontrivial += 1; }
        if !ok {
            acc.fail("C13:IntervalYM:try_from_ym:acceptance-not-exact", idx, || (format!("IntervalYM::try_from_ym({y}, {m}) / is_valid_ym"), if valid { format!("{total} months") } else { "rejected".into() }, format!("{got:?}"), format!("let _ = IntervalYM::try_from_ym({y}, {m});")));
        }
    });
    ctx.require(&r, &["accepted", "rejected"]);

    let dd: Vec<u32> = vec![0, 1, 31, 32, 99_999_999, 100_000_000, 100_000_001, 1 << 31, u32::MAX];
    let hh: Vec<u32> = vec![0, 1, 23, 24, 25, 256, u32::MAX];
    let ms: Vec<u32> = vec![0, 1, 59, 60, 61, 256, u32::MAX];
    let ff: Vec<u32> = vec![0, 1, 999_999, 1_000_000, 1_000_001, u32::MAX];
    let (dd, hh, ms, ff) = (&dd, &hh, &ms, &ff);
    let tot = (dd.len() * hh.len() * ms.len() * ms.len() * ff.len()) as u64;
    let r = ctx.sweep_each("interval_dt_constructor_grid", "day x hour x minute x second x microsecond grid incl. u32 extremes", tot, 4096, |idx, acc| {
        let mut k = idx as usize;
        let f = ff[k % ff.len()]; k /= ff.len();
        let s = ms[k % ms.len()]; k /= ms.len();
        let mi = ms[k % ms.len()]; k /= ms.len();
        let h = hh[k % hh.len()]; k /= hh.len();
        let d = dd[k];
        acc.states += 1;
        acc.t(2);
        let total = d as i128 * US_DAY as i128 + h as i128 * US_HOUR as i128 + mi as i128 * US_MIN as i128 + s as i128 * US_SEC as i128 + f as i128;
        let valid = h < 24 && mi < 60 && s < 60 && f < 1_000_000 && total <= DT_LIMIT as i128;
        let got = guard(|| (IntervalDT::try_from_dhms(d, h, mi, s, f).map(|i| i.usecs()), IntervalDT::is_valid(d, h, mi, s, f)));
        let ok = match &got { Ok((Ok(v), true)) => valid && *v as i128 == total, Ok((Err(_), false)) => !valid, _ => false };
        if valid { acc.cls("accepted") } else { acc.cls("rejected"); acc.nontrivial += 1; }
        if !ok {
            acc.fail("C13:IntervalDT:try_from_dhms:acceptance-not-exact", idx, || (format!("IntervalDT::try_from_dhms({d}, {h}, {mi}, {s}, {f}) / is_valid"), if valid { format!("{total} µs") } else { "rejected".into() }, format!("{got:?}"), format!("let _ = IntervalDT::try_from_dhms({d}, {h}, {mi}, {s}, {f});")));
        }
    });
    ctx.require(&r, &["accepted", "rejected"]);
    // hidden state: every ordered pair of operation calls on a fresh thread against the lone call (no model involved)
    let hist_calls = crate::histpairs::calls_ops(true, &|op| matches!(op.sig().0, 3 | 4));
    crate::histpairs::pairwise(ctx, "C13", "interval_operations", hist_calls);
    let hist_calls_full = crate::histpairs::calls_ops(false, &|op| matches!(op.sig().0, 3 | 4));
    crate::histpairs::pairwise_same_thread(ctx, "C13", "interval_operations", hist_calls_full);
    crate::histpairs::pairwise(ctx, "C13", "field_accessors_and_constructors", crate::histpairs::calls_accessors());
}
