//! Two-step histories from the initial state.  The crate is meant to be purely functional; this
//! check explores hidden per-thread state (caches, memo tables) the way an explicit-state search
//! explores any other state: every call sequence [f(a)] and [f(a), f(b)] over a structured date
//! alphabet is executed on a FRESH thread (the initial state) and the last observation is
//! compared with the reference.  The alphabet contains dates whose years differ by every power
//! of two up to 8192 and by multiples of 64 / 100 / 400 / 1000 / 1024 (tag and slot collisions),
//! the epoch (day number 0, a natural "empty" sentinel) and the range ends.

use crate::common::*;
use crate::units::*;
use explorer::{Ctx, SubReport};
use refmodel::ranges::{OD_MAX, TS_MAX};
use sqldatetime::{Date, DateTime, OracleDate, Time, Timestamp};

const DATE_MAX_US: i128 = refmodel::ranges::DATE_MAX * 86_400_000_000;

#[derive(Clone, Copy, PartialEq, Eq, Debug)]
pub enum Family {
    /// year / month / day / extract / day_of_week / last_day_of_month
    Accessors,
    Trunc,
    Round,
}

pub fn alphabet(w: &World) -> Vec<i32> {
    let cal = &w.cal;
    let mut v: Vec<i32> = vec![0, 1, -1, cal.min_day, cal.max_day];
    for (by, bm, bd) in [(2020, 6, 15), (2000, 2, 29)] {
        let mut deltas: Vec<i32> = if by == 2020 { vec![0, 100, 400, 1000, 64, 128, 192, 3072, 5120, 6144, 7168] } else { vec![0, 4, 100, 400, 1024, 2048] };
        let mut p = 1;
        while p <= 8192 && by == 2020 {
            deltas.push(p);
            p *= 2;
        }
        for d in deltas {
            for sg in [1, -1] {
                let y = by + sg * d;
                if (1..=9999).contains(&y) {
                    let dd = if bm == 2 && bd == 29 && !refmodel::calendar::is_leap(y) { 28 } else { bd };
                    v.push(cal.day_number(y, bm, dd));
                }
            }
        }
    }
    let mut p = 1i32;
    while p <= (1 << 21) {
        for sg in [1, -1] {
            let n = sg * p;
            if n >= cal.min_day && n <= cal.max_day {
                v.push(n);
            }
        }
        p *= 2;
    }
    v.sort();
    v.dedup();
    v
}

/// Observations of the real code for one date, in a fixed order.
fn observe(fam: Family, n: i32) -> Vec<Option<i64>> {
    let d = Date::try_from_days(n).unwrap();
    let ts = Timestamp::new(d, Time::try_from_usecs(12 * US_HOUR + 1).unwrap());
    let od = OracleDate::new(d, Time::try_from_usecs(12 * US_HOUR).unwrap());
    let mut out = Vec::new();
    match fam {
        Family::Accessors => {
            let (y, m, dd) = d.extract();
            out.extend([d.year().map(|x| x as i64), d.month().map(|x| x as i64), d.day().map(|x| x as i64), Some(y as i64), Some(m as i64), Some(dd as i64), Some(d.day_of_week() as i64), Some(d.last_day_of_month().days() as i64)]);
            out.extend([ts.year().map(|x| x as i64), ts.month().map(|x| x as i64), ts.day().map(|x| x as i64), DateTime::date(&ts).map(|x| x.days() as i64), od.year().map(|x| x as i64), od.day().map(|x| x as i64), Some(ts.last_day_of_month().usecs()), Some(od.last_day_of_month().usecs())]);
        }
        Family::Trunc => {
            for u in 0..12 {
                out.push(trunc_date(u, d).ok().map(|x| x.days() as i64 * US_DAY));
                out.push(trunc_ts(u, ts).ok().map(|x| x.usecs()));
                out.push(trunc_od(u, od).ok().map(|x| x.usecs()));
            }
        }
        Family::Round => {
            for u in 0..12 {
                out.push(round_date(u, d).ok().map(|x| x.days() as i64 * US_DAY));
                out.push(round_ts(u, ts).ok().map(|x| x.usecs()));
                out.push(round_od(u, od).ok().map(|x| x.usecs()));
            }
        }
    }
    out
}

/// The same observations from the reference; `None` inside = must fail; outer `None` = unspecified
/// here (shortened week, known finding) and skipped.
fn expected(w: &World, fam: Family, n: i32) -> Vec<Option<Option<i64>>> {
    let c = w.cal.at(n);
    let dr = day_ref(w, n);
    let mut out = Vec::new();
    match fam {
        Family::Accessors => {
            let last = n as i64 + (refmodel::calendar::month_len(c.y, c.m) - c.d) as i64;
            for v in [c.y as i64, c.m as i64, c.d as i64, c.y as i64, c.m as i64, c.d as i64, c.wd as i64, last] {
                out.push(Some(Some(v)));
            }
            for v in [c.y as i64, c.m as i64, c.d as i64, n as i64, c.y as i64, c.d as i64, last * US_DAY + 12 * US_HOUR + 1, last * US_DAY + 12 * US_HOUR] {
                out.push(Some(Some(v)));
            }
        }
        Family::Trunc => {
            for u in 0..12 {
                let day_part = if u >= 9 { Some(n as i128 * US_DAY as i128) } else { ref_trunc(&dr, u, &c, 0) };
                out.push(Some(day_part.map(|x| x as i64)));
                out.push(Some(ref_trunc(&dr, u, &c, 12 * US_HOUR + 1).map(|x| x as i64)));
                out.push(Some(ref_trunc(&dr, u, &c, 12 * US_HOUR).map(|x| x as i64)));
            }
        }
        Family::Round => {
            for u in 0..12 {
                let conv = |e: Exp| match e {
                    Exp::Val(v) => Some(Some(v as i64)),
                    Exp::Fail => Some(None),
                    Exp::Either(..) => None,
                };
                // the open known finding F2 (century rounding of years divisible by 100) is not re-reported here
                let skip = u == 0 && c.y % 100 == 0;
                let d_exp = if u >= 9 { Exp::Val(n as i128 * US_DAY as i128) } else { ref_round(w, &dr, u, &c, 0, DATE_MAX_US) };
                out.push(if skip { None } else { conv(d_exp) });
                out.push(if skip { None } else { conv(ref_round(w, &dr, u, &c, 12 * US_HOUR + 1, TS_MAX)) });
                out.push(if skip { None } else { conv(ref_round(w, &dr, u, &c, 12 * US_HOUR, OD_MAX)) });
            }
        }
    }
    out
}

pub fn two_step_histories(ctx: &mut Ctx, prop: &'static str, fam: Family) -> SubReport {
    let w = world();
    let alpha = alphabet(w);
    let n = alpha.len() as u64;
    let a = &alpha;
    ctx.bound("history_alphabet", explorer::serde_json::json!(alpha.len()));
    let r = ctx.sweep_each(
        "two_step_histories_on_fresh_threads",
        "every call sequence [f(a)] and [f(a), f(b)] over a structured date alphabet (epoch, range ends, years at every power-of-two and 64/100/400/1000/1024-multiple distance), each on a fresh thread; the last observation is compared with the reference",
        n * (n + 1),
        64,
        |idx, acc| {
            let b = a[(idx % n) as usize];
            let first = idx / n; // 0 = no earlier call, k = a[k-1] first
            acc.states += 1;
            acc.t(1);
            acc.traces += 1;
            let res = std::thread::scope(|s| {
                s.spawn(|| {
                    guard(|| {
                        if first > 0 {
                            let _ = observe(fam, a[(first - 1) as usize]);
                        }
                        observe(fam, b)
                    })
                })
                .join()
            });
            let got = match res {
                Ok(Ok(v)) => v,
                _ => {
                    acc.fail(&format!("{prop}:history:panic"), idx, || (format!("fresh thread: {fam:?} of day {b} after {first}"), "no panic".into(), "panic".into(), String::new()));
                    return;
                }
            };
            let want = expected(w, fam, b);
            let mut bad = None;
            for (i, (g, e)) in got.iter().zip(want.iter()).enumerate() {
                if let Some(e) = e {
                    if g != e {
                        bad = Some((i, *g, *e));
                        break;
                    }
                }
            }
            if first == 0 { acc.cls("single_call_from_initial_state") } else { acc.cls("second_call_after_another_input"); acc.nontrivial += 1; }
            if let Some((i, g, e)) = bad {
                let sig = if first == 0 { format!("{prop}:history:first-call-on-a-fresh-thread-wrong") } else { format!("{prop}:history:result-depends-on-an-earlier-call") };
                acc.fail(&sig, idx, || {
                    (format!("fresh thread: {} then {fam:?} observations of day {b} (observation #{i})", if first == 0 { "nothing".to_string() } else { format!("the same observations of day {}", a[(first - 1) as usize]) }),
                     format!("{e:?}"), format!("{g:?}"), String::new())
                });
            }
        },
    );
    ctx.require(&r, &["single_call_from_initial_state", "second_call_after_another_input"]);

    // three-step histories over a smaller alphabet
    let small: Vec<i32> = {
        let mut v = vec![0, 1, -1, w.cal.min_day, w.cal.max_day];
        for (y, m, d) in [(2020, 6, 15), (996, 6, 15), (3044, 6, 15), (2000, 2, 29), (1970, 12, 31), (2084, 6, 15), (1956, 6, 15), (2021, 1, 3), (1900, 3, 1), (2019, 12, 30), (6116, 6, 15), (2420, 6, 15), (1620, 6, 15)] {
            v.push(w.cal.day_number(y, m, d));
        }
        for p in [64, 1024, 65_536, 1 << 19] { v.push(p); v.push(-p); }
        v.sort();
        v.dedup();
        v
    };
    let m = small.len() as u64;
    let sm = &small;
    let r3 = ctx.sweep_each(
        "three_step_histories_on_fresh_threads",
        "every call sequence [f(a), f(b), f(c)] over a 26-date alphabet, each on a fresh thread; the last observation is compared with the reference",
        m * m * m,
        64,
        |idx, acc| {
            let (a1, b1, c1) = (sm[(idx / (m * m)) as usize], sm[((idx / m) % m) as usize], sm[(idx % m) as usize]);
            acc.states += 1;
            acc.t(1);
            acc.traces += 1;
            acc.nontrivial += 1;
            let res = std::thread::scope(|s| s.spawn(|| guard(|| { let _ = observe(fam, a1); let _ = observe(fam, b1); observe(fam, c1) })).join());
            let got = match res { Ok(Ok(v)) => v, _ => { acc.fail(&format!("{prop}:history:panic"), idx, || (format!("fresh thread: {fam:?} of days {a1}, {b1}, {c1}"), "no panic".into(), "panic".into(), String::new())); return; } };
            let want = expected(w, fam, c1);
            acc.cls("third_call");
            for (i, (g, e)) in got.iter().zip(want.iter()).enumerate() {
                if let Some(e) = e {
                    if g != e {
                        acc.fail(&format!("{prop}:history:result-depends-on-earlier-calls"), idx, || (format!("fresh thread: {fam:?} observations of days {a1}, {b1}, then {c1} (observation #{i})"), format!("{e:?}"), format!("{g:?}"), String::new()));
                        break;
                    }
                }
            }
        },
    );
    ctx.require(&r3, &["third_call"]);
    r
}


// ---------------------------------------------------------------------------------------------
// Alternation with an anchor over ALL dates: the sequence a, b1, a, b2, a, b3 ... on one thread puts
// every date b directly after (and directly before) a fixed anchor a, for two anchors.  A stale
// hit of any cache keyed on a narrowed / hashed form of the argument shows as a wrong result for
// the b (or the a) whose key collides with the other's.
// ---------------------------------------------------------------------------------------------

fn observe_light(fam: Family, n: i32, fmt: &sqldatetime::Formatter) -> (Vec<Option<i64>>, String) {
    let d = Date::try_from_days(n).unwrap();
    let ts = Timestamp::new(d, Time::try_from_usecs(12 * US_HOUR + 1).unwrap());
    let mut out = Vec::with_capacity(16);
    let mut text = String::new();
    match fam {
        Family::Accessors => {
            out.extend([d.year().map(|x| x as i64), d.month().map(|x| x as i64), d.day().map(|x| x as i64), Some(d.day_of_week() as i64), Some(d.last_day_of_month().days() as i64),
                ts.year().map(|x| x as i64), ts.day().map(|x| x as i64), DateTime::date(&ts).map(|x| x.days() as i64), Some(ts.last_day_of_month().usecs())]);
            text.reserve(24);
            let _ = fmt.format(d, &mut text);
        }
        Family::Trunc => {
            for u in 0..12 { out.push(trunc_date(u, d).ok().map(|x| x.days() as i64 * US_DAY)); }
            for u in [2usize, 5, 9] { out.push(trunc_ts(u, ts).ok().map(|x| x.usecs())); }
        }
        Family::Round => {
            for u in 0..12 { out.push(round_date(u, d).ok().map(|x| x.days() as i64 * US_DAY)); }
            for u in [5usize, 9] { out.push(round_ts(u, ts).ok().map(|x| x.usecs())); }
        }
    }
    (out, text)
}

fn expected_light(w: &World, fam: Family, n: i32) -> (Vec<Option<Option<i64>>>, String) {
    let c = w.cal.at(n);
    let dr = day_ref(w, n);
    let mut out = Vec::with_capacity(16);
    let mut text = String::new();
    let conv = |e: Exp| match e { Exp::Val(v) => Some(Some(v as i64)), Exp::Fail => Some(None), Exp::Either(..) => None };
    match fam {
        Family::Accessors => {
            let last = n as i64 + (refmodel::calendar::month_len(c.y, c.m) - c.d) as i64;
            for v in [c.y as i64, c.m as i64, c.d as i64, c.wd as i64, last, c.y as i64, c.d as i64, n as i64, last * US_DAY + 12 * US_HOUR + 1] { out.push(Some(Some(v))); }
            text = format!("{:04}-{:02}-{:02} {:03}", c.y, c.m, c.d, c.doy);
        }
        Family::Trunc => {
            for u in 0..12 { out.push(Some(if u >= 9 { Some(n as i64 * US_DAY) } else { ref_trunc(&dr, u, &c, 0).map(|x| x as i64) })); }
            for u in [2usize, 5, 9] { out.push(Some(ref_trunc(&dr, u, &c, 12 * US_HOUR + 1).map(|x| x as i64))); }
        }
        Family::Round => {
            for u in 0..12 {
                let skip = u == 0 && c.y % 100 == 0;
                let e = if u >= 9 { Exp::Val(n as i128 * US_DAY as i128) } else { ref_round(w, &dr, u, &c, 0, DATE_MAX_US) };
                out.push(if skip { None } else { conv(e) });
            }
            for u in [5usize, 9] { out.push(conv(ref_round(w, &dr, u, &c, 12 * US_HOUR + 1, TS_MAX))); }
        }
    }
    (out, text)
}

pub fn alternating_with_anchor(ctx: &mut Ctx, prop: &'static str, fam: Family) -> SubReport {
    let w = world();
    // anchors in February (the month whose length differs from every other month's, and between years)
    let anchors = [w.cal.day_number(1, 2, 28), w.cal.day_number(2000, 2, 29)];
    let exp_anchor: Vec<(Vec<Option<Option<i64>>>, String)> = anchors.iter().map(|&a| expected_light(w, fam, a)).collect();
    let total = w.cal.total_days() as u64;
    let ea = &exp_anchor;
    let r = ctx.sweep("alternating_with_anchor_all_dates", "the call sequence a, b1, a, b2, a, b3, ... on one thread for every date b and two anchors a (0001-02-28, 2000-02-29): every result of both is compared with the reference", total, 4096, |range, acc| {
        let fmt = sqldatetime::Formatter::try_new("YYYY-MM-DD DDD").unwrap();
        for idx in range {
            let b = w.cal.min_day + idx as i32;
            acc.states += 1;
            let (want_b, text_b) = expected_light(w, fam, b);
            for (ai, &a) in anchors.iter().enumerate() {
                acc.t(2);
                acc.traces += 1;
                let got = guard(|| (observe_light(fam, a, &fmt), observe_light(fam, b, &fmt)));
                let ((ga, ta), (gb, tb)) = match got { Ok(x) => x, Err(()) => { acc.fail(&format!("{prop}:history:panic"), idx, || (format!("{fam:?} of day {a} then day {b}"), "no panic".into(), "panic".into(), String::new())); continue; } };
                let bad_a = ga.iter().zip(ea[ai].0.iter()).position(|(g, e)| matches!(e, Some(e) if g != e)).map(|i| (i, true)).or(if fam == Family::Accessors && ta != ea[ai].1 { Some((99, true)) } else { None });
                let bad_b = gb.iter().zip(want_b.iter()).position(|(g, e)| matches!(e, Some(e) if g != e)).map(|i| (i, false)).or(if fam == Family::Accessors && tb != text_b { Some((99, false)) } else { None });
                acc.cls("alternation_step");
                if let Some((i, is_anchor)) = bad_a.or(bad_b) {
                    acc.fail(&format!("{prop}:history:result-depends-on-the-previous-call"), idx, || (format!("one thread: ... day {a}, day {b}, day {a}, ... ({fam:?} observations); wrong: observation #{i} of the {}", if is_anchor { "anchor (called right after the previous date)" } else { "date (called right after the anchor)" }),
                        format!("{:?} / {:?}", if is_anchor { &ea[ai].0 } else { &want_b }, if is_anchor { &ea[ai].1 } else { &text_b }), format!("{:?} / {:?}", if is_anchor { &ga } else { &gb }, if is_anchor { &ta } else { &tb }), String::new()));
                }
            }
        }
    });
    ctx.require(&r, &["alternation_step"]);
    r
}

// ---------------------------------------------------------------------------------------------
// The first call in a fresh PROCESS (process-wide lazily initialised state): for every date of a
// small alphabet a child process of this binary makes that date's observations its very first calls
// into the crate, then observes two fixed dates; the parent compares all three with the reference.
// ---------------------------------------------------------------------------------------------

pub fn fam_name(f: Family) -> &'static str {
    match f { Family::Accessors => "accessors", Family::Trunc => "trunc", Family::Round => "round" }
}

pub fn fam_parse(s: &str) -> Option<Family> {
    match s { "accessors" => Some(Family::Accessors), "trunc" => Some(Family::Trunc), "round" => Some(Family::Round), _ => None }
}

/// Child side: `sqldt-mc first-call <family> <day>`.
pub fn child_first_call(fam: Family, day: i32) {
    for n in [day, 18_739, 0] {
        let v = observe(fam, n);
        let strs: Vec<String> = v.iter().map(|x| match x { Some(v) => v.to_string(), None => "E".to_string() }).collect();
        println!("OBS {}", strs.join(","));
    }
}

pub fn first_call_in_fresh_process(ctx: &mut Ctx, prop: &'static str, fam: Family) -> SubReport {
    let w = world();
    let cal = &w.cal;
    let mut days: Vec<i32> = vec![0, cal.min_day, cal.max_day, 18_739];
    for y in [100, 200, 300, 400, 500, 1000, 1500, 1600, 1700, 1800, 1900, 2000, 2100, 2200, 2300, 2400, 4000, 9900] {
        days.push(cal.day_number(y, 6, 1));
        days.push(cal.day_number(y, 1, 1));
    }
    for (y, m, d) in [(2024, 2, 29), (2023, 12, 31), (1969, 12, 31), (2021, 1, 3), (1582, 10, 10)] { days.push(cal.day_number(y, m, d)); }
    days.sort();
    days.dedup();
    let exe = match std::env::current_exe() { Ok(e) => e, Err(e) => { ctx.machinery_failure(format!("current_exe: {e}")); return ctx.absorb_external("first_call_in_a_fresh_process", "", explorer::Acc::new("first_call_in_a_fresh_process")); } };
    let dr = &days;
    let r = ctx.sweep_each("first_call_in_a_fresh_process", "for every date of a 45-date alphabet (century years, epoch, range ends, leap days) a child process makes that date's observations its first calls into the crate, then observes two fixed dates; all three are compared with the reference", days.len() as u64, 1, |idx, acc| {
        let day = dr[idx as usize];
        acc.states += 1;
        acc.t(3);
        acc.traces += 1;
        let out = std::process::Command::new(&exe).arg("first-call").arg(fam_name(fam)).arg(day.to_string()).output();
        let text = match out { Ok(o) if o.status.success() => String::from_utf8_lossy(&o.stdout).to_string(), Ok(o) => {
            acc.fail(&format!("{prop}:history:first-call-in-a-fresh-process-panics"), idx, || (format!("child process: {fam:?} observations of day {day} as the first calls"), "exit 0".into(), format!("status {:?}", o.status.code()), String::new())); return; }
            Err(_) => { acc.cls("spawn_failed"); return; } };
        let lines: Vec<&str> = text.lines().filter_map(|l| l.strip_prefix("OBS ")).collect();
        acc.cls("first_call");
        acc.nontrivial += 1;
        for (k, n) in [day, 18_739, 0].iter().enumerate() {
            let want = expected(w, fam, *n);
            let got: Vec<Option<i64>> = lines.get(k).map(|l| l.split(',').map(|x| x.parse::<i64>().ok()).collect()).unwrap_or_default();
            let bad = got.len() != want.len() || got.iter().zip(want.iter()).any(|(g, e)| matches!(e, Some(e) if g != e));
            if bad {
                acc.fail(&format!("{prop}:history:depends-on-the-first-call-of-the-process"), idx, || (format!("child process whose first calls are the {fam:?} observations of day {day}: observations of day {n} (call group {k})"), format!("{want:?}"), format!("{got:?}"), String::new()));
                break;
            }
        }
    });
    ctx.require(&r, &["first_call"]);
    r
}
