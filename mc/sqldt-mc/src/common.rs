//! Shared helpers of the property modules.

use refmodel::calendar::{Boundaries, Calendar};
use sqldatetime::Error;
use std::panic::{catch_unwind, AssertUnwindSafe};
use std::sync::OnceLock;

pub struct World {
    pub cal: Calendar,
    pub bounds: Boundaries,
}

static WORLD: OnceLock<World> = OnceLock::new();

pub fn world() -> &'static World {
    WORLD.get_or_init(|| {
        let cal = Calendar::new();
        // the documented limits must be what counting days from the 1970 anchor gives
        assert_eq!(cal.min_day as i128, refmodel::ranges::DATE_MIN, "walker: first day number");
        assert_eq!(cal.max_day as i128, refmodel::ranges::DATE_MAX, "walker: last day number");
        assert_eq!(cal.total_days(), 3_652_059, "walker: number of supported days");
        let bounds = Boundaries::build(&cal);
        World { cal, bounds }
    })
}

/// Run a call into the crate under test; a panic becomes `Err(())`.
#[inline]
pub fn guard<T, F: FnOnce() -> T>(f: F) -> Result<T, ()> {
    catch_unwind(AssertUnwindSafe(f)).map_err(|_| ())
}

pub fn errk(e: &Error) -> &'static str {
    match e {
        Error::DateOutOfRange => "DateOutOfRange",
        Error::TimeOutOfRange => "TimeOutOfRange",
        Error::IntervalOutOfRange => "IntervalOutOfRange",
        Error::InvalidNumber => "InvalidNumber",
        Error::InvalidMonth => "InvalidMonth",
        Error::InvalidDay => "InvalidDay",
        Error::InvalidMinute => "InvalidMinute",
        Error::InvalidSecond => "InvalidSecond",
        Error::InvalidFraction => "InvalidFraction",
        Error::InvalidDate => "InvalidDate",
        Error::NumericOverflow => "NumericOverflow",
        Error::DivideByZero => "DivideByZero",
        Error::InvalidFormat(_) => "InvalidFormat",
        Error::FormatError(_) => "FormatError",
        Error::ParseError(_) => "ParseError",
        Error::TryReserveError(_) => "TryReserveError",
        // a variant added to the crate later must not break the harness build
        #[allow(unreachable_patterns)]
        _ => "OtherError",
    }
}

/// splitmix64: seed-derived pool extensions (never decides a verdict on its own: the values it
/// yields are crossed exhaustively like the fixed members).
pub fn splitmix(mut x: u64) -> u64 {
    x = x.wrapping_add(0x9E37_79B9_7F4A_7C15);
    let mut z = x;
    z = (z ^ (z >> 30)).wrapping_mul(0xBF58_476D_1CE4_E5B9);
    z = (z ^ (z >> 27)).wrapping_mul(0x94D0_49BB_1331_11EB);
    z ^ (z >> 31)
}

pub const US_SEC: i64 = 1_000_000;
pub const US_MIN: i64 = 60 * US_SEC;
pub const US_HOUR: i64 = 60 * US_MIN;
pub const US_DAY: i64 = 24 * US_HOUR;

/// Critical times of day (µs since midnight): both sides of every rounding midpoint and of
/// midnight / noon, plus hh:29:59.999999, hh:30, hh:mm:29.999999, hh:mm:30 for a grid of hh, mm.
pub fn crit_times() -> Vec<i64> {
    let mut v = vec![
        0,
        1,
        US_SEC - 1,
        US_SEC,
        12 * US_HOUR - 1,
        12 * US_HOUR,
        12 * US_HOUR + 1,
        US_DAY - US_SEC,
        US_DAY - 1,
    ];
    for hh in [0i64, 11, 12, 23] {
        v.push(hh * US_HOUR + 30 * US_MIN - 1);
        v.push(hh * US_HOUR + 30 * US_MIN);
        for mm in [0i64, 29, 30, 59] {
            v.push(hh * US_HOUR + mm * US_MIN + 30 * US_SEC - 1);
            v.push(hh * US_HOUR + mm * US_MIN + 30 * US_SEC);
        }
    }
    // times of day whose microsecond count (or its distance to the next midnight) is a multiple
    // of 2^32: a remainder narrowed to 32 bits reads as zero there
    for k in [1i64, 20] {
        v.push(k << 32);
        v.push(US_DAY - (k << 32));
    }
    v.sort();
    v.dedup();
    v
}

/// Whole-second subset of the critical times (for the Oracle-style date).
pub fn crit_seconds() -> Vec<i64> {
    let mut v: Vec<i64> = crit_times().into_iter().map(|t| t - t % US_SEC).collect();
    v.sort();
    v.dedup();
    v
}

pub fn fmt_time(t: i64) -> String {
    let us = t % US_SEC;
    let s = t / US_SEC;
    format!("{:02}:{:02}:{:02}.{:06}", s / 3600, s / 60 % 60, s % 60, us)
}
