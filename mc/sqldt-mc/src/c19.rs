//! C19 — a picture is accepted exactly when it is a sequence of documented tokens.

use crate::common::*;
use crate::probe::*;
use explorer::serde_json::json;
use explorer::strings;
use explorer::{Acc, Ctx};
use refmodel::picture::{case_unspecified, render, tokenize, Tok, Ty};
#[allow(unused_imports)]
use crate::probe::TV;
use sqldatetime::{Error, Formatter};

pub const PIC_ALPHABET: [&[u8]; 42] = [
    b"A", b"D", b"F", b"H", b"I", b"M", b"N", b"O", b"P", b"S", b"T", b"W", b"Y", b"a", b"d", b"f", b"h", b"i", b"m", b"n", b"o", b"p", b"s", b"t", b"w", b"y", b"0", b"1",
    b"2", b"4", b"9", b"-", b":", b"/", b"\\", b",", b".", b";", b" ", "\u{e9}".as_bytes(), b"\t", b"\n",
];

/// Compare one picture string with the reference tokenizer and, on acceptance, the rendering of
/// the probe value with the reference rendering of the reference token sequence.
pub fn check_picture(acc: &mut Acc, idx: u64, pic: &[u8], probe: &TV, probe_fields: &refmodel::picture::Fields) {
    acc.t(1);
    let s = match std::str::from_utf8(pic) {
        Ok(s) => s,
        Err(_) => return,
    };
    let reference = tokenize(pic);
    let got = guard(|| Formatter::try_new(s));
    match (&reference, got) {
        (None, Ok(Err(Error::InvalidFormat(_)))) => { acc.cls("rejected"); acc.nontrivial += 1; }
        (None, Ok(Err(e))) => acc.fail("C19:rejects-with-wrong-error-kind", idx, || (format!("Formatter::try_new({})", bytes_show(pic)), "Err(InvalidFormat)".into(), format!("Err({e:?})"), format!("let r = Formatter::try_new({s:?});"))),
        (None, Ok(Ok(f))) => {
            let text = guard(|| probe.format_with(&f));
            acc.fail("C19:accepts-picture-that-is-not-a-token-sequence", idx, || (format!("Formatter::try_new({})", bytes_show(pic)), "Err(InvalidFormat): not a sequence of documented tokens".into(), format!("accepted; probe renders as {text:?}"), format!("assert!(Formatter::try_new({s:?}).is_err());")))
        }
        (Some(toks), Ok(Ok(f))) => {
            acc.traces += 1;
            acc.t(1);
            let want = render(toks, Ty::Timestamp, probe_fields).expect("all tokens apply to a timestamp");
            let text = guard(|| probe.format_with(&f));
            let loose = toks.iter().any(case_unspecified);
            let ok = match &text { Ok(Ok(t)) => if loose { t.eq_ignore_ascii_case(&want) } else { *t == want }, _ => false };
            if toks.len() > 1 { acc.nontrivial += 1; }
            acc.cls("accepted");
            if !ok {
                let blank = toks.iter().any(|t| matches!(t, Tok::Blank(n) if *n >= 200));
                acc.fail(if blank { "C19:long-blank-run-not-reproduced" } else { "C19:accepted-picture-renders-as-different-token-sequence" }, idx, || (format!("probe 2021-04-22 13:07:09.123456 formatted with {}", bytes_show(pic)), format!("{want:?} (tokens {toks:?})"), format!("{text:?}"),
                    format!("// format Timestamp 2021-04-22 13:07:09.123456 with picture {s:?}")));
            }
        }
        (Some(toks), Ok(Err(e))) => { let toks = toks.clone(); acc.fail("C19:rejects-sequence-of-documented-tokens", idx, || (format!("Formatter::try_new({})", bytes_show(pic)), format!("Ok: tokens {toks:?}"), format!("Err({e:?})"), format!("assert!(Formatter::try_new({s:?}).is_ok());"))) }
        (_, Err(())) => acc.fail("C19:try_new-panics", idx, || (format!("Formatter::try_new({})", bytes_show(pic)), "a Formatter or an Error".into(), "panic".into(), format!("let _ = Formatter::try_new({s:?});"))),
    }
}

pub fn token_spellings() -> Vec<&'static str> {
    vec![
        "YYYY", "yyy", "Yy", "y", "MM", "mm", "MON", "Mon", "mon", "MONTH", "Month", "month", "DD", "dd", "DDD", "ddd", "D", "d", "DAY", "Day", "day", "DY", "Dy", "dy", "HH", "hh",
        "HH12", "hh12", "HH24", "hh24", "MI", "mi", "SS", "ss", "FF", "ff", "FF1", "FF2", "FF3", "FF4", "FF5", "FF6", "FF7", "FF8", "FF9", "ff3", "AM", "am", "Am", "PM", "pm", "pM",
        "A.M.", "a.m.", "A.m.", "P.M.", "p.m.", "p.M.", "W", "w", "WW", "ww", "T", "-", ":", "/", "\\", ",", ".", ";", " ", "   ",
    ]
}

pub fn run(ctx: &mut Ctx) {
    let probe = probe_ts();
    let pf = probe.fields();
    let max_len: u32 = if ctx.thorough() { 6 } else { 5 };
    let k = PIC_ALPHABET.len() as u64;
    let n = strings::count_upto(k, max_len);
    ctx.rule("a case is one picture string at a distinct enumeration index; non-trivial = the string is rejected, or it is accepted and consists of more than one token (a token-boundary decision is exercised)");
    ctx.assume("reference: table-driven case-insensitive longest-match tokenizer over the documented token list (literal T upper-case only, at most 36 tokens) + reference renderer; probe 2021-04-22 13:07:09.123456 has pairwise distinct field renderings");
    ctx.bound("string_length", json!(format!("every string of length 0..={max_len} over the 42-symbol alphabet")));
    let (probe, pf) = (&probe, &pf);

    let r = ctx.sweep("all_short_strings", "every string up to the length bound over the 42-symbol picture alphabet (letters of the tokens in both cases, digits, punctuation, blank, tab, newline, one multi-byte character)", n, 1 << 16, |range, acc| {
        let mut sym = Vec::new();
        let mut buf = Vec::new();
        strings::decode(range.start, k, max_len, &mut sym);
        let cnt = range.end - range.start;
        for idx in range {
            strings::render(&sym, &PIC_ALPHABET, &mut buf);
            check_picture(acc, idx, &buf, probe, pf);
            if idx == 40 * 40 + 7 { acc.want_sample = true; acc.sample(|| json!({"picture": bytes_show(&buf), "reference_tokens": format!("{:?}", tokenize(&buf)), "impl_accepts": Formatter::try_new(std::str::from_utf8(&buf).unwrap()).is_ok()})); acc.want_sample = false; }
            strings::increment(&mut sym, k as u8);
        }
        acc.states += cnt;
    });
    ctx.require(&r, &["accepted", "rejected"]);

    // token-count boundary and long token sequences
    let sp = token_spellings();
    let mut pics: Vec<String> = Vec::new();
    for t in &sp {
        for kk in 34..=38usize {
            pics.push(format!("{}{}", "-".repeat(kk - 1), t));
            pics.push(format!("{}{}", t, ";".repeat(kk - 1)));
            pics.push(format!("{}", format!("{t}/").repeat(kk / 2)));
            pics.push(format!("{}{t}", format!("{t}:").repeat(kk / 2)));
        }
    }
    for start in 0..sp.len() {
        for len in 1..=40usize {
            for sep in ["", " ", "-", ". "] {
                let toks: Vec<&str> = (0..len).map(|i| sp[(start + i * 7) % sp.len()]).collect();
                pics.push(toks.join(sep));
            }
        }
    }
    ctx.bound("token_sequences", json!(pics.len()));
    let pics_r = &pics;
    let r = ctx.sweep_each("token_sequences_and_count_boundary", "every token spelling at positions 34..38 of otherwise valid pictures; strided rotations of the token list, 1..=40 tokens, 4 separators", pics.len() as u64, 256, |idx, acc| {
        acc.states += 1;
        check_picture(acc, idx, pics_r[idx as usize].as_bytes(), probe, pf);
    });
    ctx.require(&r, &["accepted", "rejected"]);

    // the whole character repertoire, not only the letters of the documented tokens: every ASCII character (and a
    // set of non-ASCII ones) alone, and every ordered pair of ASCII characters, each bare and inside a valid picture
    let mut chars: Vec<char> = (0u8..=127).map(|b| b as char).collect();
    chars.extend(['\u{80}', '\u{a0}', '\u{e9}', '\u{ff}', '\u{3a9}', '\u{2003}', '\u{3000}', '\u{20ac}', '\u{ff0d}', '\u{ff1a}', '\u{1f980}']);
    let nch = chars.len() as u64;
    ctx.bound("character_repertoire", json!(format!("{} characters (all 128 ASCII + 11 non-ASCII incl. other blanks and full-width punctuation); all 128^2 ASCII pairs", chars.len())));
    let chars_r = &chars;
    let r = ctx.sweep_each("every_character_in_context", "every character of the repertoire in 6 contexts (alone, YYYY<c>MM, <c>DD, MI<c>, HH24<c><c>SS, DD <c> MON) and every ordered pair of ASCII characters in 2 contexts (alone, YYYY<c1><c2>DD)", nch + 128 * 128, 256, |idx, acc| {
        acc.states += 1;
        if idx < nch {
            let c = chars_r[idx as usize];
            for pic in [format!("{c}"), format!("YYYY{c}MM"), format!("{c}DD"), format!("MI{c}"), format!("HH24{c}{c}SS"), format!("DD {c} MON")] {
                check_picture(acc, idx, pic.as_bytes(), probe, pf);
            }
        } else {
            let k = idx - nch;
            let (c1, c2) = ((k / 128) as u8 as char, (k % 128) as u8 as char);
            for pic in [format!("{c1}{c2}"), format!("YYYY{c1}{c2}DD")] {
                check_picture(acc, idx, pic.as_bytes(), probe, pf);
            }
        }
    });
    ctx.require(&r, &["accepted", "rejected"]);

    // hidden state: every ordered pair of compile / format calls on a fresh thread against the lone call
    crate::histpairs::pairwise(ctx, "C19", "compile_and_format", crate::histpairs::calls_format());

    // blank runs of every length
    let maxb: usize = 600;
    ctx.bound("blank_runs", json!(format!("every length 1..={maxb}, alone and between two tokens")));
    let r = ctx.sweep_each("blank_runs", "runs of blanks of every length alone, between two tokens, and after a token", maxb as u64 * 3, 64, |idx, acc| {
        let n = (idx / 3) as usize + 1;
        let pic = match idx % 3 { 0 => " ".repeat(n), 1 => format!("YYYY{}MM", " ".repeat(n)), _ => format!("DD-{}", " ".repeat(n)) };
        acc.states += 1;
        check_picture(acc, idx, pic.as_bytes(), probe, pf);
    });
    ctx.require(&r, &["accepted"]);

    // blank runs around every power of two (a narrowed run-length counter wraps there)
    let top: u32 = if ctx.thorough() { 22 } else { 17 };
    let mut lens: Vec<usize> = Vec::new();
    for e in 8..=top { for d in [-1i64, 0, 1] { lens.push(((1i64 << e) + d) as usize); } }
    ctx.bound("blank_runs_powers_of_two", json!(format!("2^e - 1, 2^e, 2^e + 1 for e in 8..={top}")));
    let lens_r = &lens;
    let r = ctx.sweep_each("blank_runs_powers_of_two", "blank runs of length 2^e - 1, 2^e, 2^e + 1 between two tokens", lens.len() as u64, 1, |idx, acc| {
        let n = lens_r[idx as usize];
        acc.states += 1;
        check_picture(acc, idx, format!("DD{}MI", " ".repeat(n)).as_bytes(), probe, pf);
    });
    ctx.require(&r, &["accepted"]);

    // bounded language over TOKENS: every sequence of up to 6 (thorough 7) tokens of a reduced alphabet,
    // concatenated without separators other than the punctuation tokens themselves (prefix / suffix
    // special cases of realistic pictures such as YYYY-MM-DD followed by another D live here)
    let toks: [&str; 18] = ["YYYY", "YY", "MM", "MON", "DD", "DDD", "D", "DY", "HH24", "HH", "MI", "SS", "FF", "-", ":", " ", "T", "t"];
    let tl: u32 = if ctx.thorough() { 7 } else { 6 };
    let nk = toks.len() as u64;
    let nseq = explorer::strings::count_upto(nk, tl);
    ctx.bound("token_language", json!(format!("every sequence of 0..={tl} tokens over {toks:?}")));
    let r = ctx.sweep("all_short_token_sequences", "every sequence of tokens up to the length bound over an 18-token alphabet (incl. the literal T and a lower-case t) (re-lexed by the reference tokenizer)", nseq, 1 << 14, |range, acc| {
        let mut sym = Vec::new();
        let mut buf: Vec<u8> = Vec::new();
        explorer::strings::decode(range.start, nk, tl, &mut sym);
        let cnt = range.end - range.start;
        for idx in range {
            buf.clear();
            for &k in &sym { buf.extend_from_slice(toks[k as usize].as_bytes()); }
            check_picture(acc, idx, &buf, probe, pf);
            explorer::strings::increment(&mut sym, nk as u8);
        }
        acc.states += cnt;
    });
    ctx.require(&r, &["accepted", "rejected"]);

    // well-known pictures in every letter-case variant, through each type's OWN format entry point
    let r = ctx.sweep_each("well_known_pictures_case_variants_type_entry_points", "about 40 pictures in common use x {as written, upper, lower, capitalised tokens, alternating case} through Formatter and through Date / Timestamp / OracleDate / Time ::format", WELL_KNOWN.len() as u64 * 5, 4, |idx, acc| {
        let base = WELL_KNOWN[(idx / 5) as usize];
        let pic = case_variant(base, (idx % 5) as u8);
        acc.states += 1;
        check_picture(acc, idx, pic.as_bytes(), probe, pf);
        // the types' own entry points must agree with the Formatter
        let toks = match tokenize(pic.as_bytes()) { Some(t) => t, None => return };
        let loose = toks.iter().any(case_unspecified);
        let n = world().cal.day_number(2021, 4, 22);
        let raw = probe.raw;
        let outs: Vec<(&str, Ty, Result<Option<String>, ()>)> = vec![
            ("Timestamp::format", Ty::Timestamp, guard(|| sqldatetime::Timestamp::try_from_usecs(raw).unwrap().format(&pic).ok().and_then(|d| { let mut s = String::new(); std::fmt::Write::write_fmt(&mut s, format_args!("{}", d)).ok().map(|_| s) }))),
            ("OracleDate::format", Ty::OracleDate, guard(|| sqldatetime::OracleDate::try_from_usecs(raw / US_SEC * US_SEC).unwrap().format(&pic).ok().and_then(|d| { let mut s = String::new(); std::fmt::Write::write_fmt(&mut s, format_args!("{}", d)).ok().map(|_| s) }))),
            ("Date::format", Ty::Date, guard(|| sqldatetime::Date::try_from_days(n).unwrap().format(&pic).ok().and_then(|d| { let mut s = String::new(); std::fmt::Write::write_fmt(&mut s, format_args!("{}", d)).ok().map(|_| s) }))),
            ("Time::format", Ty::Time, guard(|| sqldatetime::Time::try_from_usecs(raw.rem_euclid(US_DAY)).unwrap().format(&pic).ok().and_then(|d| { let mut s = String::new(); std::fmt::Write::write_fmt(&mut s, format_args!("{}", d)).ok().map(|_| s) }))),
        ];
        for (name, ty, got) in outs {
            acc.t(1);
            let tv = TV { ty, raw: match ty { Ty::Date => n as i64, Ty::Time => raw.rem_euclid(US_DAY), Ty::OracleDate => raw / US_SEC * US_SEC, _ => raw } };
            let want = render(&toks, ty, &tv.fields());
            let ok = match (&want, &got) { (Some(w), Ok(Some(g))) => if loose { g.eq_ignore_ascii_case(w) } else { g == w }, (None, Ok(None)) => true, _ => false };
            if !ok {
                acc.fail("C19:type-entry-point-renders-differently-from-the-token-sequence", idx, || (format!("{name}({pic:?}) for the probe value"), format!("{want:?}"), format!("{got:?}"), String::new()));
            }
        }
    });
    ctx.require(&r, &["accepted"]);
}

/// Pictures in common use (Oracle / ISO / PostgreSQL documentation style).
pub const WELL_KNOWN: [&str; 40] = [
    "DD-MON-YYYY HH24:MI:SS", "DD-MON-YY HH.MI.SS.FF AM", "DD-MON-YY", "DD-MON-RR", "YYYY-MM-DD HH24:MI:SS", "YYYY-MM-DD HH24:MI:SS.FF", "YYYY-MM-DD HH24:MI:SS.FF6", "YYYY-MM-DDTHH24:MI:SS", "YYYY-MM-DD",
    "YYYYMMDD", "YYYYMMDDHH24MISS", "MM/DD/YYYY", "DD/MM/YYYY", "DD.MM.YYYY", "DD.MM.YYYY HH24:MI", "MM/DD/YYYY HH:MI:SS AM", "Month DD, YYYY", "Mon DD, YYYY", "Day, DD Month YYYY", "Dy, DD Mon YYYY HH24:MI:SS",
    "DY DD-MON-YYYY", "HH24:MI:SS", "HH24:MI", "HH:MI AM", "HH12:MI:SS PM", "HH.MI.SS.FF AM", "HH24:MI:SS.FF3", "YYYY-DDD", "YYYY-MM", "MON-YYYY", "MM-YYYY", "YY-MM-DD", "DD-MM-YY HH24:MI", "YYYY/MM/DD HH24:MI:SS",
    "YYYY.MM.DD", "DD MON YYYY", "DDMONYYYY", "YYYY-MM-DD HH:MI:SS P.M.", "D DD DDD W WW", "DAY MONTH YYYY",
];

pub fn case_variant(p: &str, v: u8) -> String {
    match v {
        0 => p.to_string(),
        1 => p.to_ascii_uppercase().replace("t", "T"),
        2 => p.chars().map(|c| if c == 'T' { c } else { c.to_ascii_lowercase() }).collect(),
        3 => {
            // capitalise each alphabetic run
            let mut out = String::new();
            let mut start = true;
            for c in p.chars() {
                if c.is_ascii_alphabetic() { out.push(if start { c.to_ascii_uppercase() } else if c == 'T' { c } else { c.to_ascii_lowercase() }); start = false; } else { out.push(c); start = true; }
            }
            out
        }
        _ => p.chars().enumerate().map(|(i, c)| if c == 'T' { c } else if i % 2 == 0 { c.to_ascii_lowercase() } else { c.to_ascii_uppercase() }).collect(),
    }
}
