//! The generator side of the parsing model: (type, picture, value, spelling choices) -> text,
//! together with the value that text denotes.  The canonical text is deviation 0; each lenient
//! spelling the property permits is one deviation.

use crate::common::*;
use refmodel::picture::{render_tok, spell, Case, Fields, Tok, Ty};

/// The value a text produced from these tokens and fields denotes (raw count of `ty`), or
/// `None` when the picture does not determine a value under the properties (missing date
/// parts — C18's subject —, 12-hour field without meridian, duplicate or inapplicable codes).
pub fn denoted(ty: Ty, toks: &[Tok], f: &Fields) -> Option<i64> {
    let mut year = None;
    let mut month = false;
    let mut day = false;
    let mut doy = false;
    let mut h24 = false;
    let mut h12 = false;
    let mut mer = false;
    let mut mi = false;
    let mut ss = false;
    let mut ff: Option<Option<u8>> = None;
    let mut dow = false;
    for t in toks {
        if !refmodel::picture::applies(t, ty) {
            return None;
        }
        let dup = |flag: &mut bool| -> Option<()> {
            if *flag {
                None
            } else {
                *flag = true;
                Some(())
            }
        };
        match t {
            Tok::Year(n) => {
                if year.is_some() {
                    return None;
                }
                year = Some(*n);
            }
            Tok::MM | Tok::Mon(_) | Tok::Month(_) => dup(&mut month)?,
            Tok::DD => dup(&mut day)?,
            Tok::DDD => dup(&mut doy)?,
            Tok::D | Tok::Day(_) | Tok::Dy(_) => dup(&mut dow)?,
            Tok::HH24 => {
                if h12 || mer {
                    return None;
                }
                dup(&mut h24)?
            }
            Tok::HH12 => {
                if h24 {
                    return None;
                }
                dup(&mut h12)?
            }
            Tok::Meridian { .. } => {
                if h24 {
                    return None;
                }
                dup(&mut mer)?
            }
            Tok::MI => dup(&mut mi)?,
            Tok::SS => dup(&mut ss)?,
            Tok::FF(p) => {
                if ff.is_some() {
                    return None;
                }
                ff = Some(*p);
            }
            Tok::W | Tok::WW => return None, // output-only
            Tok::Blank(_) | Tok::Punct(_) | Tok::T => {}
        }
    }
    if h12 != mer {
        return None; // 12-hour clock needs both parts to denote an hour
    }
    let hour = if h24 || h12 { f.hour as i64 } else { 0 };
    let minute = if mi { f.minute as i64 } else { 0 };
    let second = if ss { f.second as i64 } else { 0 };
    let micro = match ff {
        None => 0,
        Some(p) => {
            let p = p.unwrap_or(9).min(6) as u32;
            let q = 10i64.pow(6 - p);
            f.micro as i64 / q * q
        }
    };
    let tod = hour * US_HOUR + minute * US_MIN + second * US_SEC + micro;
    match ty {
        Ty::Date | Ty::Timestamp | Ty::OracleDate => {
            if year != Some(4) {
                return None;
            }
            if !((month && day) || doy) {
                return None;
            }
            if ty == Ty::Date && (h24 || h12 || mi || ss || ff.is_some()) {
                return None;
            }
            let n = world().cal.day_number(f.year as i32, f.month, f.day) as i64;
            Some(match ty {
                Ty::Date => n,
                _ => n * US_DAY + tod,
            })
        }
        Ty::Time => Some(tod),
        Ty::IntervalYM => {
            // leading year field carries the sign
            if !matches!(toks.iter().find(|t| !matches!(t, Tok::Blank(_))), Some(Tok::Year(_))) {
                return None;
            }
            let m = f.year * 12 + if month { f.month as i64 } else { 0 };
            Some(if f.negative { -m } else { m })
        }
        Ty::IntervalDT => {
            if !matches!(toks.iter().find(|t| !matches!(t, Tok::Blank(_))), Some(Tok::DD)) {
                return None;
            }
            let u = f.day as i64 * US_DAY + tod;
            Some(if f.negative { -u } else { u })
        }
    }
}

pub fn picture_of(toks: &[Tok]) -> String {
    toks.iter().map(spell).collect()
}

/// One lenient-spelling deviation from the canonical text.
#[derive(Clone, Copy, Debug, PartialEq, Eq)]
pub enum Dev {
    /// numeric field without its leading zeros
    Unpad(usize),
    /// leading '+' on a numeric field
    Plus(usize),
    /// n extra blanks before piece i (i == len: at the very end)
    Blanks(usize, usize),
    /// letter case variant of a name / meridian: 0 upper, 1 lower, 2 capitalised, 3 alternating
    Case(usize, u8),
    /// month name where MM stands: 0 full, 1 abbreviated; case variant as above
    MonthName(usize, u8, u8),
    /// trailing zeros of the fraction trimmed
    TrimFraction(usize),
    /// text cut before piece i (all remaining picture tokens tolerate missing input)
    Cut(usize),
}

fn recase(s: &str, variant: u8) -> String {
    match variant {
        0 => s.to_ascii_uppercase(),
        1 => s.to_ascii_lowercase(),
        2 => {
            let mut l = s.to_ascii_lowercase();
            if !l.is_empty() {
                l[..1].make_ascii_uppercase();
            }
            l
        }
        _ => s.chars().enumerate().map(|(i, c)| if i % 2 == 0 { c.to_ascii_lowercase() } else { c.to_ascii_uppercase() }).collect(),
    }
}

fn is_numeric_field(t: &Tok) -> bool {
    matches!(t, Tok::Year(_) | Tok::MM | Tok::DD | Tok::DDD | Tok::HH24 | Tok::HH12 | Tok::MI | Tok::SS)
}

fn is_name(t: &Tok) -> bool {
    matches!(t, Tok::Mon(_) | Tok::Month(_) | Tok::Day(_) | Tok::Dy(_) | Tok::Meridian { .. })
}

/// Tokens after which the text may simply end (the parser tolerates their absence).
fn tolerates_absence(t: &Tok) -> bool {
    matches!(t, Tok::Blank(_) | Tok::Punct(b'-') | Tok::Punct(b':') | Tok::Punct(b'.') | Tok::HH24 | Tok::MI | Tok::SS | Tok::FF(_) | Tok::Meridian { .. })
}

pub struct Spelled {
    pub ty: Ty,
    pub toks: Vec<Tok>,
    pub fields: Fields,
    pub pieces: Vec<String>,
    pub sign: Option<char>,
}

impl Spelled {
    pub fn new(ty: Ty, toks: &[Tok], f: &Fields) -> Option<Spelled> {
        let mut pieces = Vec::new();
        for t in toks {
            pieces.push(render_tok(t, ty, f)?);
        }
        let sign = if ty.is_interval() { Some(if f.negative { '-' } else { '+' }) } else { None };
        Some(Spelled { ty, toks: toks.to_vec(), fields: *f, pieces, sign })
    }

    pub fn canonical(&self) -> String {
        let mut s = String::new();
        if let Some(c) = self.sign {
            s.push(c);
        }
        for p in &self.pieces {
            s.push_str(p);
        }
        s
    }

    /// Index of the token that carries the interval sign (first non-blank token).
    fn signed_field(&self) -> Option<usize> {
        if self.sign.is_some() {
            self.toks.iter().position(|t| !matches!(t, Tok::Blank(_)))
        } else {
            None
        }
    }

    /// All single deviations applicable to this text.
    pub fn deviations(&self) -> Vec<Dev> {
        let mut v = Vec::new();
        let n = self.toks.len();
        let signed = self.signed_field();
        for (i, t) in self.toks.iter().enumerate() {
            if is_numeric_field(t) {
                if self.pieces[i].len() > 1 && self.pieces[i].starts_with('0') {
                    v.push(Dev::Unpad(i));
                }
                // a one/two/three-digit year field is completed from the clock (C18), keep '+' off it
                if Some(i) != signed && !matches!(t, Tok::Year(1..=3)) {
                    v.push(Dev::Plus(i));
                }
            }
            if is_name(t) {
                for c in 0..4u8 {
                    v.push(Dev::Case(i, c));
                }
            }
            if matches!(t, Tok::MM) && self.ty.has_date() {
                for full in 0..2u8 {
                    for c in 0..4u8 {
                        v.push(Dev::MonthName(i, full, c));
                    }
                }
            }
            if let Tok::FF(_) = t {
                if self.pieces[i].ends_with('0') {
                    v.push(Dev::TrimFraction(i));
                }
            }
        }
        for i in 0..=n {
            // never separate the interval sign from its number
            if Some(i) == signed {
                continue;
            }
            v.push(Dev::Blanks(i, 1));
            v.push(Dev::Blanks(i, 3));
        }
        if !self.ty.is_interval() {
            for i in 1..n {
                let has_date_before = !self.ty.has_date() || self.toks[..i].iter().any(|t| matches!(t, Tok::DD | Tok::DDD));
                if has_date_before && self.toks[i..].iter().all(tolerates_absence) {
                    v.push(Dev::Cut(i));
                }
            }
        }
        v
    }

    /// Apply a set of deviations; returns (text, denoted raw value) or `None` when the
    /// combination is not a spelling the properties define (ambiguous digit runs, a cut that
    /// leaves the date part, 12-hour field without its meridian, ...).
    pub fn apply(&self, devs: &[Dev]) -> Option<(String, i64)> {
        let n = self.toks.len();
        let mut pieces = self.pieces.clone();
        let mut blanks = vec![0usize; n + 1];
        let mut cut = n;
        let mut touched = vec![0u8; n];
        for d in devs {
            match *d {
                Dev::Unpad(i) => {
                    if touched[i] & (1 | 16) != 0 { return None; }
                    touched[i] |= 1;
                    let t = pieces[i].trim_start_matches('0');
                    pieces[i] = if t.is_empty() { "0".to_string() } else { t.to_string() };
                }
                Dev::Plus(i) => {
                    if touched[i] & (2 | 16) != 0 { return None; }
                    touched[i] |= 2;
                }
                Dev::Blanks(i, k) => {
                    if blanks[i] != 0 { return None; }
                    blanks[i] = k;
                }
                Dev::Case(i, c) => {
                    if touched[i] & 4 != 0 { return None; }
                    touched[i] |= 4;
                    pieces[i] = recase(&pieces[i], c);
                }
                Dev::MonthName(i, full, c) => {
                    if touched[i] != 0 { return None; }
                    touched[i] |= 16;
                    let name = refmodel::tables::MONTH_NAMES[self.fields.month as usize - 1];
                    let name = if full == 0 { name.to_string() } else { name[..3].to_string() };
                    pieces[i] = recase(&name, c);
                }
                Dev::TrimFraction(i) => {
                    if touched[i] & 8 != 0 { return None; }
                    touched[i] |= 8;
                    pieces[i] = pieces[i].trim_end_matches('0').to_string();
                }
                Dev::Cut(i) => {
                    if cut != n { return None; }
                    cut = i;
                }
            }
        }
        // deviations on pieces beyond the cut are meaningless
        for i in cut..n {
            if touched[i] != 0 || (i > cut && blanks[i] != 0) { return None; }
        }
        if cut < n && blanks[n] != 0 { return None; }
        for i in 0..n {
            if touched[i] & 2 != 0 {
                pieces[i] = format!("+{}", pieces[i]);
            }
        }
        let mut text = String::new();
        if let Some(c) = self.sign {
            text.push(c);
        }
        for i in 0..cut {
            for _ in 0..blanks[i] { text.push(' '); }
            text.push_str(&pieces[i]);
        }
        let end_blanks = if cut < n { blanks[cut] } else { blanks[n] };
        for _ in 0..end_blanks { text.push(' '); }
        // ambiguity: a numeric field that is shorter than its full width (or an empty trimmed
        // fraction) must not be followed directly by a digit
        let mut pos = if self.sign.is_some() { 1 } else { 0 };
        for i in 0..cut {
            pos += blanks[i];
            let end = pos + pieces[i].len();
            let t = &self.toks[i];
            let shortened = (is_numeric_field(t) && touched[i] & 1 != 0) || (matches!(t, Tok::FF(_)) && touched[i] & 8 != 0);
            // variable-width fields (interval year / day, bare FF) are also ambiguous before a digit
            let variable = matches!((self.ty, t), (Ty::IntervalYM, Tok::Year(_)) | (Ty::IntervalDT, Tok::DD)) || matches!(t, Tok::FF(None));
            if shortened || variable {
                if let Some(&b) = text.as_bytes().get(end) {
                    if b.is_ascii_digit() { return None; }
                }
            }
            // a month name must not run into a following letter
            if touched[i] & 16 != 0 || is_name(t) {
                if let Some(&b) = text.as_bytes().get(end) {
                    if b.is_ascii_alphabetic() { return None; }
                }
            }
            pos = end;
        }
        // denoted value: fields of the tokens that remain
        let kept: Vec<Tok> = self.toks[..cut].to_vec();
        if cut < n {
            // dropping an HH12 / meridian pair partly is not defined here (C18: omitted 12-hour field)
            let dropped = &self.toks[cut..];
            if dropped.iter().any(|t| matches!(t, Tok::HH12)) { return None; }
            let kept_h12 = kept.iter().any(|t| matches!(t, Tok::HH12));
            let dropped_mer = dropped.iter().any(|t| matches!(t, Tok::Meridian { .. }));
            if kept_h12 && dropped_mer { return None; }
        }
        let val = denoted(self.ty, &kept, &self.fields)?;
        Some((text, val))
    }
}

pub fn name_case(c: u8) -> Case {
    match c {
        0 => Case::Upper,
        1 => Case::Lower,
        _ => Case::Capital,
    }
}
