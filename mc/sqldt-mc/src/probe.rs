//! Bridging between real values and the reference model's `Fields`.

use crate::common::*;
use refmodel::picture::{Fields, Ty};
use sqldatetime::{Date, Formatter, IntervalDT, IntervalYM, OracleDate, Time, Timestamp};

/// Fields of an instant (day number + time of day) for the date-bearing types / Time.
pub fn fields_instant(n: i32, t: i64) -> Fields {
    let c = world().cal.at(n);
    Fields {
        year: c.y as i64,
        month: c.m,
        day: c.d,
        hour: (t / US_HOUR) as u32,
        minute: (t / US_MIN % 60) as u32,
        second: (t / US_SEC % 60) as u32,
        micro: (t % US_SEC) as u32,
        negative: false,
        weekday: c.wd,
        doy: c.doy,
    }
}

pub fn fields_time(t: i64) -> Fields {
    Fields { hour: (t / US_HOUR) as u32, minute: (t / US_MIN % 60) as u32, second: (t / US_SEC % 60) as u32, micro: (t % US_SEC) as u32, ..Fields::default() }
}

pub fn fields_ym(m: i32) -> Fields {
    let a = (m as i64).abs();
    Fields { year: a / 12, month: (a % 12) as u32, negative: m < 0, ..Fields::default() }
}

pub fn fields_dt(u: i64) -> Fields {
    let a = (u as i128).abs();
    let day = US_DAY as i128;
    Fields {
        day: (a / day) as u32,
        hour: (a % day / US_HOUR as i128) as u32,
        minute: (a % US_HOUR as i128 / US_MIN as i128) as u32,
        second: (a % US_MIN as i128 / US_SEC as i128) as u32,
        micro: (a % US_SEC as i128) as u32,
        negative: u < 0,
        ..Fields::default()
    }
}

/// A typed raw value: (type, raw count).  Date: day number; Time / Timestamp / OracleDate /
/// IntervalDT: microseconds; IntervalYM: months.
#[derive(Clone, Copy, Debug, PartialEq, Eq, Hash)]
pub struct TV {
    pub ty: Ty,
    pub raw: i64,
}

impl TV {
    pub fn fields(&self) -> Fields {
        match self.ty {
            Ty::Date => fields_instant(self.raw as i32, 0),
            Ty::Time => fields_time(self.raw),
            Ty::Timestamp | Ty::OracleDate => fields_instant(self.raw.div_euclid(US_DAY) as i32, self.raw.rem_euclid(US_DAY)),
            Ty::IntervalYM => fields_ym(self.raw as i32),
            Ty::IntervalDT => fields_dt(self.raw),
        }
    }

    /// Format through a compiled Formatter into a String sink.
    pub fn format_with(&self, f: &Formatter) -> Result<String, sqldatetime::Error> {
        // one allocation up front: growing a String byte by byte from many threads serialises on the allocator
        let mut s = String::with_capacity(128);
        match self.ty {
            Ty::Date => f.format(Date::try_from_days(self.raw as i32).unwrap(), &mut s)?,
            Ty::Time => f.format(Time::try_from_usecs(self.raw).unwrap(), &mut s)?,
            Ty::Timestamp => f.format(Timestamp::try_from_usecs(self.raw).unwrap(), &mut s)?,
            Ty::OracleDate => f.format(OracleDate::try_from_usecs(self.raw).unwrap(), &mut s)?,
            Ty::IntervalYM => f.format(IntervalYM::try_from_months(self.raw as i32).unwrap(), &mut s)?,
            Ty::IntervalDT => f.format(IntervalDT::try_from_usecs(self.raw).unwrap(), &mut s)?,
        }
        Ok(s)
    }

    /// Parse a text with a picture into this value's type; returns the raw count.
    pub fn parse(ty: Ty, text: &str, pic: &str) -> Result<i64, sqldatetime::Error> {
        Ok(match ty {
            Ty::Date => Date::parse(text, pic)?.days() as i64,
            Ty::Time => Time::parse(text, pic)?.usecs(),
            Ty::Timestamp => Timestamp::parse(text, pic)?.usecs(),
            Ty::OracleDate => OracleDate::parse(text, pic)?.usecs(),
            Ty::IntervalYM => IntervalYM::parse(text, pic)?.months() as i64,
            Ty::IntervalDT => IntervalDT::parse(text, pic)?.usecs(),
        })
    }

    pub fn parse_with(ty: Ty, text: &str, f: &Formatter) -> Result<i64, sqldatetime::Error> {
        Ok(match ty {
            Ty::Date => f.parse::<_, Date>(text)?.days() as i64,
            Ty::Time => f.parse::<_, Time>(text)?.usecs(),
            Ty::Timestamp => f.parse::<_, Timestamp>(text)?.usecs(),
            Ty::OracleDate => f.parse::<_, OracleDate>(text)?.usecs(),
            Ty::IntervalYM => f.parse::<_, IntervalYM>(text)?.months() as i64,
            Ty::IntervalDT => f.parse::<_, IntervalDT>(text)?.usecs(),
        })
    }

    pub fn show(&self) -> String {
        format!("{:?}({})", self.ty, self.raw)
    }
}

/// The probe value of C19: 2021-04-22 13:07:09.123456 (pairwise distinct field renderings).
pub fn probe_ts() -> TV {
    let n = world().cal.day_number(2021, 4, 22);
    TV { ty: Ty::Timestamp, raw: n as i64 * US_DAY + 13 * US_HOUR + 7 * US_MIN + 9 * US_SEC + 123_456 }
}

pub fn bytes_show(b: &[u8]) -> String {
    match std::str::from_utf8(b) {
        Ok(s) => format!("{s:?}"),
        Err(_) => format!("{b:?}"),
    }
}
