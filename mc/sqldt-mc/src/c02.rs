//! C02 — every value produced by a safe operation lies in its type's documented range.

use crate::closure::*;
use crate::common::*;
use crate::optable::*;
use crate::units::*;
use explorer::serde_json::json;
use explorer::Ctx;
use refmodel::ranges as rg;
use sqldatetime::{Date, OracleDate, Time, Timestamp};

/// Exact magnitude of an interval text of the limit family: is it inside the documented range?
fn interval_text_in_range(ty: refmodel::picture::Ty, text: &str) -> bool {
    let t = text.trim_start_matches(['+', '-']);
    match ty {
        refmodel::picture::Ty::IntervalYM => {
            let (y, m) = t.split_once('-').unwrap();
            let (y, m): (i128, i128) = (y.parse().unwrap(), m.parse().unwrap());
            m < 12 && y * 12 + m <= rg::YM_MAX
        }
        _ => {
            let (d, rest) = t.split_once(' ').unwrap();
            let d: i128 = d.parse().unwrap();
            let (hms, frac) = match rest.split_once('.') { Some((a, b)) => (a, b), None => (rest, "") };
            let p: Vec<i128> = hms.split(':').map(|x| x.parse().unwrap()).collect();
            if p[0] > 23 || p[1] > 59 || p[2] > 59 { return false; }
            // fraction rounded half-up to microseconds
            let mut digits = frac.to_string();
            while digits.len() < 7 { digits.push('0'); }
            let us: i128 = digits[..6].parse::<i128>().unwrap() + if digits.as_bytes()[6] >= b'5' { 1 } else { 0 };
            d * rg::US_PER_DAY + p[0] * rg::US_PER_HOUR + p[1] * rg::US_PER_MIN + p[2] * rg::US_PER_SEC + us <= rg::DT_MAX
        }
    }
}

pub fn run(ctx: &mut Ctx) {
    let w = world();
    let cal = &w.cal;
    ctx.rule("a case is one transition (state, operation, operand) of the closure or one (value, unit) of the flat sweep; non-trivial = the call returned an error (a range gate fired) — those are exactly the places where a wrapped or clamped value could have been returned instead");
    ctx.assume("reference: documented ranges typed in from the property text; exact i128 / calendar result for every operation that has one (float-operand operations only get the range invariant here)");

    let thorough = ctx.thorough();
    let ops = Operands::standard(ctx.seed, thorough);
    let sd = seeds(ctx.seed);
    let depth = if thorough { 4 } else { 3 };
    let (r, levels) = run_closure(ctx, "closure", Mode::Range, depth, if thorough { 3 } else { 99 }, &ops, &sd);
    ctx.require(&r, &["ok_value", "error", "scalar"]);
    if thorough {
        // engine self-check: the closure must not depend on hash order or thread timing
        let (_, levels2) = run_closure(ctx, "closure_rerun", Mode::Range, depth, 3, &ops, &sd);
        if levels != levels2 {
            ctx.machinery_failure(format!("BFS closure is not deterministic: {levels:?} vs {levels2:?}"));
        }
        // engine cross-check under stateright (same op table, same invariant): unique states within
        // depth d (initial states are depth 1) must equal seeds + new states of levels 0..d-2
        let mut cumulative = levels[0].frontier;
        let mut report = Vec::new();
        for d in 1..=3usize {
            if d >= 2 { cumulative += levels[d - 2].new_states; }
            let (n, clean) = crate::xcheck::unique_states(&sd, &ops, d);
            report.push(json!({"stateright_depth": d, "stateright_unique_states": n, "explorer_cumulative_states": cumulative, "no_discovery": clean}));
            if n as u64 != cumulative || !clean {
                ctx.machinery_failure(format!("engine cross-check: stateright visits {n} unique states within depth {d}, the explorer {cumulative} (no discovery: {clean})"));
            }
        }
        ctx.extra("stateright_cross_check", json!(report));
    }

    // flat: all dates x 24 trunc/round + last day on the three types — results in range
    let crit = crit_times();
    let crit_s = crit_seconds();
    let (crit, crit_s) = (&crit, &crit_s);
    let total = cal.total_days() as u64;
    let r = ctx.sweep("trunc_round_results_in_range", "all dates x {12 trunc, 12 round, last_day_of_month} x {Date, Timestamp at 4 rotating critical times, OracleDate at 2 whole-second times}: every returned value is in range", total, 1024, |range, acc| {
        for idx in range {
            let n = cal.min_day + idx as i32;
            let date = Date::try_from_days(n).unwrap();
            acc.states += 1;
            // op code: 0..12 trunc, 12..24 round, 24 last_day_of_month
            let opname = |code: usize| if code < 12 { format!("trunc_{}", UNIT_NAMES[code]) } else if code < 24 { format!("round_{}", UNIT_NAMES[code - 12]) } else { "last_day_of_month".to_string() };
            let chk = |acc: &mut explorer::Acc, ty: &'static str, code: usize, t: i64, r: Result<Result<i128, ()>, ()>, ok: fn(i128) -> bool| {
                acc.t(1);
                match r {
                    Ok(Ok(v)) => { if ok(v) { acc.cls("ok_value") } else { acc.fail(&format!("C02:{ty}:{}:returns-out-of-range-value", opname(code)), idx, || (format!("{ty} at day {n} time {t} µs: {}", opname(code)), "in-range value or error".into(), format!("{v}"), String::new())) } }
                    Ok(Err(())) => { acc.cls("error"); acc.nontrivial += 1; }
                    Err(()) => acc.fail(&format!("C02:{ty}:{}:panic", opname(code)), idx, || (format!("{ty} at day {n} time {t} µs: {}", opname(code)), "value or error".into(), "panic".into(), String::new())),
                }
            };
            for u in 0..12 {
                chk(acc, "Date", u, 0, guard(|| trunc_date(u, date).map(|d| d.days() as i128).map_err(|_| ())), rg::date_ok);
                chk(acc, "Date", 12 + u, 0, guard(|| round_date(u, date).map(|d| d.days() as i128).map_err(|_| ())), rg::date_ok);
            }
            chk(acc, "Date", 24, 0, guard(|| Ok(date.last_day_of_month().days() as i128)), rg::date_ok);
            for j in 0..4usize {
                let t = crit[(idx as usize * 4 + j * 13) % crit.len()];
                let ts = Timestamp::new(date, Time::try_from_usecs(t).unwrap());
                for u in 0..12 {
                    chk(acc, "Timestamp", u, t, guard(|| trunc_ts(u, ts).map(|d| d.usecs() as i128).map_err(|_| ())), rg::ts_ok);
                    chk(acc, "Timestamp", 12 + u, t, guard(|| round_ts(u, ts).map(|d| d.usecs() as i128).map_err(|_| ())), rg::ts_ok);
                }
                chk(acc, "Timestamp", 24, t, guard(|| Ok(ts.last_day_of_month().usecs() as i128)), rg::ts_ok);
            }
            for j in 0..2usize {
                let t = crit_s[(idx as usize * 2 + j * 7) % crit_s.len()];
                let od = OracleDate::new(date, Time::try_from_usecs(t).unwrap());
                for u in 0..12 {
                    chk(acc, "OracleDate", u, t, guard(|| trunc_od(u, od).map(|d| d.usecs() as i128).map_err(|_| ())), rg::od_ok);
                    chk(acc, "OracleDate", 12 + u, t, guard(|| round_od(u, od).map(|d| d.usecs() as i128).map_err(|_| ())), rg::od_ok);
                }
                chk(acc, "OracleDate", 24, t, guard(|| Ok(od.last_day_of_month().usecs() as i128)), rg::od_ok);
            }
        }
    });
    ctx.require(&r, &["ok_value", "error"]);
    // the published MIN / MAX / ZERO constants are the documented range ends
    {
        use sqldatetime::{IntervalDT, IntervalYM};
        let consts: Vec<(&str, i128, i128)> = vec![
            ("Date::MIN", Date::MIN.days() as i128, rg::DATE_MIN), ("Date::MAX", Date::MAX.days() as i128, rg::DATE_MAX), ("Time::ZERO", Time::ZERO.usecs() as i128, rg::TIME_MIN), ("Time::MAX", Time::MAX.usecs() as i128, rg::TIME_MAX),
            ("Timestamp::MIN", Timestamp::MIN.usecs() as i128, rg::TS_MIN), ("Timestamp::MAX", Timestamp::MAX.usecs() as i128, rg::TS_MAX), ("OracleDate::MIN", OracleDate::MIN.usecs() as i128, rg::OD_MIN), ("OracleDate::MAX", OracleDate::MAX.usecs() as i128, rg::OD_MAX),
            ("IntervalYM::MIN", IntervalYM::MIN.months() as i128, -rg::YM_MAX), ("IntervalYM::MAX", IntervalYM::MAX.months() as i128, rg::YM_MAX), ("IntervalYM::ZERO", IntervalYM::ZERO.months() as i128, 0),
            ("IntervalDT::MIN", IntervalDT::MIN.usecs() as i128, -rg::DT_MAX), ("IntervalDT::MAX", IntervalDT::MAX.usecs() as i128, rg::DT_MAX), ("IntervalDT::ZERO", IntervalDT::ZERO.usecs() as i128, 0),
        ];
        let mut acc = explorer::Acc::new("published_constants");
        for (i, (name, got, want)) in consts.iter().enumerate() {
            acc.states += 1;
            acc.t(1);
            acc.cls("ok_value");
            if got != want {
                acc.fail(&format!("C02:{name}:not-the-documented-range-end"), i as u64, || (name.to_string(), format!("{want}"), format!("{got}"), String::new()));
            }
        }
        ctx.absorb_external("published_constants", "MIN / MAX / ZERO of the six types against the documented range ends", acc);
    }

    // texts at and beyond the limits of every type: whatever parse returns must be in range
    let mut texts: Vec<(refmodel::picture::Ty, &'static str, String)> = Vec::new();
    use refmodel::picture::Ty;
    let bigs = ["0", "1", "99999999", "100000000", "100000001", "107374182", "107374183", "177999999", "178000000", "178000001", "179913941", "179913942", "200000000", "214748364", "214748365", "357913941", "357913942", "429496729", "429496730", "715827882", "715827883", "999999999"];
    let fracs = ["", ".0", ".000001", ".999999", ".9999994", ".9999995", ".999999499", ".999999500", ".999999999"];
    for b in bigs {
        for sg in ["+", "-", ""] {
            for m in ["00", "01", "11", "12"] {
                texts.push((Ty::IntervalYM, "YYYY-MM", format!("{sg}{b}-{m}")));
            }
            for t in ["00:00:00", "00:00:01", "23:59:59", "24:00:00"] {
                for f in fracs {
                    texts.push((Ty::IntervalDT, "DD HH24:MI:SS.FF", format!("{sg}{b} {t}{f}")));
                }
            }
        }
    }
    for f in fracs {
        for t in ["00:00:00", "23:59:59", "23:59:60", "24:00:00", "12:59:59"] {
            texts.push((Ty::Time, "HH24:MI:SS.FF", format!("{t}{f}")));
            for d in ["0001-01-01", "0000-12-31", "9999-12-31", "10000-01-01", "1969-12-31", "2024-02-29", "2023-02-29"] {
                texts.push((Ty::Timestamp, "YYYY-MM-DD HH24:MI:SS.FF", format!("{d} {t}{f}")));
                if f.is_empty() { texts.push((Ty::OracleDate, "YYYY-MM-DD HH24:MI:SS", format!("{d} {t}"))); texts.push((Ty::Date, "YYYY-MM-DD", d.to_string())); }
            }
        }
    }
    ctx.bound("parse_texts_at_limits", json!(texts.len()));
    let tx = &texts;
    let r = ctx.sweep_each("parse_results_in_range", "texts with field values at and far beyond the limits of every type (nine-digit interval fields, fractions that round up, year 0 / 10000, hour 24): every value parse returns is in range", texts.len() as u64, 64, |idx, acc| {
        let (ty, pic, text) = &tx[idx as usize];
        acc.states += 1;
        acc.t(1);
        acc.traces += 1;
        let got = guard(|| crate::probe::TV::parse(*ty, text, pic));
        let ok = |v: i128| match ty { Ty::Date => rg::date_ok(v), Ty::Time => rg::time_ok(v), Ty::Timestamp => rg::ts_ok(v), Ty::IntervalYM => rg::ym_ok(v), Ty::IntervalDT => rg::dt_ok(v), Ty::OracleDate => rg::od_ok(v) };
        match got {
            Ok(Ok(v)) if matches!(ty, Ty::IntervalYM | Ty::IntervalDT) && !interval_text_in_range(*ty, text) => {
                acc.fail(&format!("C02:{ty:?}:parse:returns-value-where-exact-result-out-of-range"), idx, || (format!("{ty:?}::parse({text:?}, {pic:?})"), "Err: the text denotes a value outside the documented range".into(), format!("Ok({v}) (a wrapped or clamped value)"), format!("// {ty:?}::parse({text:?}, {pic:?})")))
            }
            Ok(Ok(v)) => { if ok(v as i128) { acc.cls("ok_value") } else { acc.fail(&format!("C02:{ty:?}:parse:returns-out-of-range-value"), idx, || (format!("{ty:?}::parse({text:?}, {pic:?})"), "an in-range value or an error".into(), format!("Ok({v})"), format!("// {ty:?}::parse({text:?}, {pic:?})"))) } }
            Ok(Err(_)) => { acc.cls("error"); acc.nontrivial += 1; }
            Err(()) => acc.fail(&format!("C02:{ty:?}:parse:panic"), idx, || (format!("{ty:?}::parse({text:?}, {pic:?})"), "value or error".into(), "panic".into(), String::new())),
        }
    });
    ctx.require(&r, &["ok_value", "error"]);

    // conversions from raw integers handed over by data formats: an out-of-range number is an error, never a
    // wrapped or clamped value
    crate::c15::decode_integers(ctx, "C02", true);
    // hidden state: every ordered pair of operation calls on a fresh thread against the lone call (no model involved)
    let hist_calls = crate::histpairs::calls_ops(true, &|_| true);
    crate::histpairs::pairwise(ctx, "C02", "all_operations", hist_calls);
    let hist_calls_full = crate::histpairs::calls_ops(false, &|_| true);
    crate::histpairs::pairwise_same_thread(ctx, "C02", "all_operations", hist_calls_full);
}
