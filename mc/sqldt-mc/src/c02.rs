//! C02 — every value produced by a safe operation lies in its type's documented range.

use crate::closure::*;
use crate::common::*;
use crate::optable::*;
use crate::units::*;
use explorer::serde_json::json;
use explorer::Ctx;
use refmodel::ranges as rg;
use sqldatetime::{Date, OracleDate, Time, Timestamp};

pub fn run(ctx: &mut Ctx) {
    let w = world();
    let cal = &w.cal;
    ctx.rule("a case is one transition (state, operation, operand) of the closure or one (value, unit) of the flat sweep; non-trivial = the call returned an error (a range gate fired) — those are exactly the places where a wrapped or clamped value could have been returned instead");
    ctx.assume("reference: documented ranges typed in from the property text; exact i128 / calendar result for every operation that has one (float-operand operations only get the range invariant here)");

    let thorough = ctx.thorough();
    let ops = Operands::standard(ctx.seed, thorough);
    let sd = seeds(ctx.seed);
    let depth = if thorough { 4 } else { 3 };
    let (r, levels) = run_closure(ctx, "closure", Mode::Range, depth, if thorough { 3 } else { 99 }, &ops, &sd);
    ctx.require(&r, &["ok_value", "error", "scalar"]);
    if thorough {
        // engine self-check: the closure must not depend on hash order or thread timing
        let (_, levels2) = run_closure(ctx, "closure_rerun", Mode::Range, depth, 3, &ops, &sd);
        if levels != levels2 {
            ctx.machinery_failure(format!("BFS closure is not deterministic: {levels:?} vs {levels2:?}"));
        }
        // engine cross-check under stateright (same op table, same invariant): unique states within
        // depth d (initial states are depth 1) must equal seeds + new states of levels 0..d-2
        let mut cumulative = levels[0].frontier;
        let mut report = Vec::new();
        for d in 1..=3usize {
            if d >= 2 { cumulative += levels[d - 2].new_states; }
            let (n, clean) = crate::xcheck::unique_states(&sd, &ops, d);
            report.push(json!({"stateright_depth": d, "stateright_unique_states": n, "explorer_cumulative_states": cumulative, "no_discovery": clean}));
            if n as u64 != cumulative || !clean {
                ctx.machinery_failure(format!("engine cross-check: stateright visits {n} unique states within depth {d}, the explorer {cumulative} (no discovery: {clean})"));
            }
        }
        ctx.extra("stateright_cross_check", json!(report));
    }

    // flat: all dates x 24 trunc/round + last day on the three types — results in range
    let crit = crit_times();
    let crit_s = crit_seconds();
    let (crit, crit_s) = (&crit, &crit_s);
    let total = cal.total_days() as u64;
    let r = ctx.sweep("trunc_round_results_in_range", "all dates x {12 trunc, 12 round, last_day_of_month} x {Date, Timestamp at 4 rotating critical times, OracleDate at 2 whole-second times}: every returned value is in range", total, 1024, |range, acc| {
        for idx in range {
            let n = cal.min_day + idx as i32;
            let date = Date::try_from_days(n).unwrap();
            acc.states += 1;
            // op code: 0..12 trunc, 12..24 round, 24 last_day_of_month
            let opname = |code: usize| if code < 12 { format!("trunc_{}", UNIT_NAMES[code]) } else if code < 24 { format!("round_{}", UNIT_NAMES[code - 12]) } else { "last_day_of_month".to_string() };
            let chk = |acc: &mut explorer::Acc, ty: &'static str, code: usize, t: i64, r: Result<Result<i128, ()>, ()>, ok: fn(i128) -> bool| {
                acc.t(1);
                match r {
                    Ok(Ok(v)) => { if ok(v) { acc.cls("ok_value") } else { acc.fail(&format!("C02:{ty}:{}:returns-out-of-range-value", opname(code)), idx, || (format!("{ty} at day {n} time {t} µs: {}", opname(code)), "in-range value or error".into(), format!("{v}"), String::new())) } }
                    Ok(Err(())) => { acc.cls("error"); acc.nontrivial += 1; }
                    Err(()) => acc.fail(&format!("C02:{ty}:{}:panic", opname(code)), idx, || (format!("{ty} at day {n} time {t} µs: {}", opname(code)), "value or error".into(), "panic".into(), String::new())),
                }
            };
            for u in 0..12 {
                chk(acc, "Date", u, 0, guard(|| trunc_date(u, date).map(|d| d.days() as i128).map_err(|_| ())), rg::date_ok);
                chk(acc, "Date", 12 + u, 0, guard(|| round_date(u, date).map(|d| d.days() as i128).map_err(|_| ())), rg::date_ok);
            }
            chk(acc, "Date", 24, 0, guard(|| Ok(date.last_day_of_month().days() as i128)), rg::date_ok);
            for j in 0..4usize {
                let t = crit[(idx as usize * 4 + j * 13) % crit.len()];
                let ts = Timestamp::new(date, Time::try_from_usecs(t).unwrap());
                for u in 0..12 {
                    chk(acc, "Timestamp", u, t, guard(|| trunc_ts(u, ts).map(|d| d.usecs() as i128).map_err(|_| ())), rg::ts_ok);
                    chk(acc, "Timestamp", 12 + u, t, guard(|| round_ts(u, ts).map(|d| d.usecs() as i128).map_err(|_| ())), rg::ts_ok);
                }
                chk(acc, "Timestamp", 24, t, guard(|| Ok(ts.last_day_of_month().usecs() as i128)), rg::ts_ok);
            }
            for j in 0..2usize {
                let t = crit_s[(idx as usize * 2 + j * 7) % crit_s.len()];
                let od = OracleDate::new(date, Time::try_from_usecs(t).unwrap());
                for u in 0..12 {
                    chk(acc, "OracleDate", u, t, guard(|| trunc_od(u, od).map(|d| d.usecs() as i128).map_err(|_| ())), rg::od_ok);
                    chk(acc, "OracleDate", 12 + u, t, guard(|| round_od(u, od).map(|d| d.usecs() as i128).map_err(|_| ())), rg::od_ok);
                }
                chk(acc, "OracleDate", 24, t, guard(|| Ok(od.last_day_of_month().usecs() as i128)), rg::od_ok);
            }
        }
    });
    ctx.require(&r, &["ok_value", "error"]);
    let _ = json!(0);
}
