//! C18 — missing date fields default from the current local date, and only then.
//! The clock is owned through the `verif-hooks` feature (thread-local override + read counter).

use crate::common::*;
use crate::probe::*;
use explorer::serde_json::json;
use explorer::{Acc, Ctx};
use refmodel::calendar::{month_len, Cal, Calendar};
use refmodel::picture::Ty;
use sqldatetime::verif_hooks::{clock_reads, set_now};
use sqldatetime::{Date, Formatter, OracleDate, Time, Timestamp};
use std::convert::TryFrom;

pub fn clock(y: i32, m: u32, d: u32, tod_us: i64) -> chrono::NaiveDateTime {
    let date = chrono::NaiveDate::from_ymd_opt(y, m, d).expect("clock date");
    let secs = (tod_us / US_SEC) as u32;
    let time = chrono::NaiveTime::from_num_seconds_from_midnight_opt(secs, ((tod_us % US_SEC) * 1000) as u32).expect("clock time");
    chrono::NaiveDateTime::new(date, time)
}

/// Expected raw value of `ty` for the composed (y, m, d) + time of day, or None (must fail).
fn compose(cal: &Calendar, ty: Ty, y: i64, m: i64, d: i64, tod: i64) -> Option<i64> {
    if !Calendar::is_real_date(y, m, d) {
        return None;
    }
    let n = cal.day_number(y as i32, m as u32, d as u32) as i64;
    Some(match ty {
        Ty::Date => n,
        _ => n * US_DAY + tod,
    })
}

struct P {
    ty: Ty,
    pic: &'static str,
    fmt: Formatter,
}

fn pf(ty: Ty, pic: &'static str) -> P {
    P { ty, pic, fmt: Formatter::try_new(pic).unwrap() }
}

fn one(acc: &mut Acc, idx: u64, what: &'static str, p: &P, text: &str, expect: Option<i64>, clk: &Cal) {
    acc.t(1);
    acc.traces += 1;
    let got = guard(|| TV::parse_with(p.ty, text, &p.fmt));
    let ok = match (&got, expect) {
        (Ok(Ok(v)), Some(x)) => *v == x,
        (Ok(Err(_)), None) => true,
        _ => false,
    };
    match expect { Some(_) => acc.cls("defaulted_value"), None => { acc.cls("composed_date_does_not_exist"); acc.nontrivial += 1; } }
    if !ok {
        let kind = match (&got, expect) { (Err(()), _) => "panic", (Ok(Ok(_)), None) => "normalises-instead-of-failing", (Ok(Err(_)), Some(_)) => "fails-where-default-exists", _ => "wrong-default" };
        acc.fail(&format!("C18:{:?}:{what}:{kind}", p.ty), idx, || {
            (format!("clock = {:04}-{:02}-{:02}; {:?}::parse({text:?}, {:?})", clk.y, clk.m, clk.d, p.ty, p.pic), match expect { Some(x) => format!("Ok({x})"), None => "Err".into() }, format!("{got:?}"),
             format!("// inject clock {:04}-{:02}-{:02} with sqldatetime::verif_hooks::set_now; parse {text:?} with {:?}", clk.y, clk.m, clk.d, p.pic))
        });
    }
}

pub fn run(ctx: &mut Ctx) {
    let w = world();
    let cal = &w.cal;
    ctx.rule("a case is one (injected clock, picture, text | now-constructor) triple at a distinct sweep index; non-trivial = the composed (year, month, day) is not a real date and must be rejected, or the clock is outside years 1..9999");
    ctx.assume("the clock is the only environment input and is owned through the verif-hooks feature: a thread-local override consulted at each of the six places the crate reads chrono::Local::now(); chrono's NaiveDateTime constructor is trusted as hook input");

    // the "current local date": without an override every one of the six clock reads must report
    // the LOCAL wall clock.  The process time zone is set to UTC+9 first, so that a read of the
    // UTC clock (or of any other zone) differs by hours and cannot hide behind a UTC sandbox.
    std::env::set_var("TZ", "JST-9");
    set_now(None);
    {
        use chrono::{Datelike, Timelike};
        let us_of = |t: &chrono::NaiveDateTime| -> i64 {
            let n = world().cal.day_number(t.year(), t.month(), t.day()) as i64;
            n * US_DAY + t.num_seconds_from_midnight() as i64 * US_SEC + (t.nanosecond() / 1000) as i64
        };
        let utc_now = chrono::Utc::now().naive_utc();
        let before = chrono::Local::now().naive_local();
        let zone_ok = (us_of(&before) - us_of(&utc_now) - 9 * US_HOUR).abs() < 60 * US_SEC;
        let got = guard(|| (Date::now().map(|d| d.days() as i64), Timestamp::now().map(|t| t.usecs()), OracleDate::now().map(|t| t.usecs()),
            Timestamp::try_from(Time::ZERO).map(|t| t.usecs()), OracleDate::try_from(Time::ZERO).map(|t| t.usecs()), TV::parse(Ty::Timestamp, "", "")));
        let after = chrono::Local::now().naive_local();
        let (b, a) = (us_of(&before), us_of(&after));
        let day = |u: i64| u.div_euclid(US_DAY);
        let month_start = |t: &chrono::NaiveDateTime| world().cal.day_number(t.year(), t.month(), 1) as i64 * US_DAY;
        let ok = match &got {
            Ok((Ok(d), Ok(ts), Ok(od), Ok(t1), Ok(t2), Ok(p))) => {
                (day(b)..=day(a)).contains(d) && (b..=a).contains(ts) && (b / US_SEC * US_SEC..=a).contains(od) && (day(b)..=day(a)).contains(&day(*t1)) && (day(b)..=day(a)).contains(&day(*t2))
                    && (*p == month_start(&before) || *p == month_start(&after))
            }
            _ => false,
        };
        let mut acc = explorer::Acc::new("real_local_clock_canary");
        acc.states = 1;
        acc.t(6);
        acc.traces += 1;
        acc.cls("local_clock_reported");
        if !zone_ok {
            ctx.machinery_failure(format!("time-zone canary: chrono::Local did not honour TZ=JST-9 (local {before}, utc {utc_now})"));
        } else if !ok {
            acc.fail("C18:now-constructors:real-clock-is-not-the-local-clock", 0, || (format!("TZ=JST-9, no clock override: Date::now / Timestamp::now / OracleDate::now / Timestamp::try_from(Time) / OracleDate::try_from(Time) / parse default; local clock between {before} and {after}"), format!("values inside [{b}, {a}] µs (local wall clock)"), format!("{got:?}"), String::new()));
        }
        // the zone may change while the process lives (DST, TZ): switch to UTC-11 (a different local DATE),
        // let chrono's once-per-second zone refresh pass, and compare again
        std::env::set_var("TZ", "XYZ11");
        std::thread::sleep(std::time::Duration::from_millis(1300));
        let before2 = chrono::Local::now().naive_local();
        let got2 = guard(|| (Date::now().map(|d| d.days() as i64), Timestamp::now().map(|t| t.usecs()), OracleDate::now().map(|t| t.usecs()),
            Timestamp::try_from(Time::ZERO).map(|t| t.usecs()), OracleDate::try_from(Time::ZERO).map(|t| t.usecs()), TV::parse(Ty::Timestamp, "", "")));
        let after2 = chrono::Local::now().naive_local();
        let (b2, a2) = (us_of(&before2), us_of(&after2));
        let switched = (b2 - b).abs() > 10 * US_HOUR;
        let ok2 = match &got2 {
            Ok((Ok(d), Ok(ts), Ok(od), Ok(t1), Ok(t2), Ok(p))) => (day(b2)..=day(a2)).contains(d) && (b2..=a2).contains(ts) && (b2 / US_SEC * US_SEC..=a2).contains(od) && (day(b2)..=day(a2)).contains(&day(*t1)) && (day(b2)..=day(a2)).contains(&day(*t2)) && (*p == month_start(&before2) || *p == month_start(&after2)),
            _ => false,
        };
        acc.t(6);
        if !switched {
            ctx.machinery_failure(format!("time-zone canary: chrono::Local did not follow the change to TZ=XYZ11 (local {before2})"));
        } else if !ok2 {
            acc.fail("C18:now-constructors:real-clock-is-not-the-local-clock-after-a-zone-change", 1, || (format!("TZ changed from JST-9 to XYZ11 inside the process; local clock between {before2} and {after2}"), format!("values inside [{b2}, {a2}] µs"), format!("{got2:?}"), String::new()));
        }
        std::env::set_var("TZ", "JST-9");
        ctx.absorb_external("real_local_clock_canary", "the six clock reads against chrono::Local under TZ=JST-9 and again after a change to TZ=XYZ11 (no override)", acc);
    }

    // ownership canary: without an override the crate reads the real clock
    set_now(None);
    let before = clock_reads();
    let real = chrono::Local::now().naive_local();
    let seen = Date::now().map(|d| d.extract());
    let real2 = chrono::Local::now().naive_local();
    use chrono::Datelike;
    let ok = match seen { Ok((y, m, d)) => (y, m, d) == (real.year(), real.month(), real.day()) || (y, m, d) == (real2.year(), real2.month(), real2.day()), Err(_) => false };
    if !ok || clock_reads() != before + 1 {
        ctx.machinery_failure(format!("clock canary: Date::now() without override gave {seen:?}, real clock {real}; reads {} -> {}", before, clock_reads()));
    }

    let total = cal.total_days() as u64;
    let tods: [i64; 3] = [0, 12 * US_HOUR + 34 * US_MIN + 56 * US_SEC + 789_012, US_DAY - 1];
    // texts that spell a full four-digit year although the picture's year field is short: "when the text supplies
    // a full year, month and day, the result does not depend on the clock" - decided purely differentially
    // against the outcome under one reference clock (no model says what the outcome is)
    let full_year_texts: Vec<(Ty, &'static str, &'static str)> = vec![
        (Ty::Date, "YY-MM-DD", "0026-03-04"), (Ty::Date, "YY-MM-DD", "1999-03-04"), (Ty::Date, "YY-MM-DD", "0100-03-04"), (Ty::Date, "YY-MM-DD", "0001-03-04"),
        (Ty::Timestamp, "YY-MM-DD HH24", "0026-03-04 05"), (Ty::OracleDate, "DD/MM/YY", "04/03/0026"), (Ty::Date, "DD MON YY", "04 MAR 0099"),
    ];
    set_now(Some(clock(2000, 1, 1, 0)));
    let full_year_base: Vec<Option<i64>> = full_year_texts.iter().map(|(ty, pic, text)| TV::parse(*ty, text, pic).ok()).collect();
    set_now(None);
    let (full_year_texts, full_year_base) = (&full_year_texts, &full_year_base);
    let r = ctx.sweep("every_clock_day", "every possible current local date (all 3,652,059 days, time of day rotating over three values) injected as the clock x partial pictures, year-completion pictures, 12-hour default, now() constructors and Time -> Timestamp / OracleDate conversions", total, 512, |range, acc| {
        let ps: Vec<P> = vec![
            pf(Ty::Date, "DD"), pf(Ty::Date, "MM-DD"), pf(Ty::Date, "YYYY"), pf(Ty::Date, "YYYY-DD"), pf(Ty::Date, "MM"), pf(Ty::Date, "DDD"), pf(Ty::Date, ""),
            pf(Ty::Timestamp, "DD"), pf(Ty::Timestamp, "HH24:MI"), pf(Ty::Timestamp, "MM-DD HH24"), pf(Ty::Timestamp, ""), pf(Ty::Timestamp, "DDD"),
            pf(Ty::OracleDate, "DD"), pf(Ty::OracleDate, "HH24:MI"), pf(Ty::OracleDate, "YYYY"), pf(Ty::OracleDate, ""),
        ];
        let py: Vec<P> = vec![pf(Ty::Date, "Y-MM-DD"), pf(Ty::Date, "YY-MM-DD"), pf(Ty::Date, "YYY-MM-DD"), pf(Ty::Timestamp, "YY-MM-DD HH24"), pf(Ty::OracleDate, "YYY/MM/DD"),
            // the year field followed by a blank, a dot, a colon (the digits-consumed count must not include the separator)
            pf(Ty::Date, "Y MM DD"), pf(Ty::Date, "YY MM DD"), pf(Ty::Date, "YYY MM DD"), pf(Ty::Date, "YY.MM.DD"), pf(Ty::Date, "YY:MM:DD"), pf(Ty::Date, "YY  MM  DD")];
        let ph: Vec<P> = vec![pf(Ty::Timestamp, "YYYY-MM-DD HH12"), pf(Ty::Timestamp, "YYYY-MM-DD HH12 AM"), pf(Ty::OracleDate, "YYYY-MM-DD HH12:MI"), pf(Ty::Timestamp, "DD HH12")];
        let complete: Vec<(P, &str, i64)> = vec![
            (pf(Ty::Date, "YYYY-MM-DD"), "2024-02-29", cal.day_number(2024, 2, 29) as i64),
            (pf(Ty::Timestamp, "YYYY-MM-DD HH24:MI:SS.FF6"), "1969-12-31 23:59:59.999999", -1),
            (pf(Ty::OracleDate, "DD MON YYYY HH12:MI PM"), "01 Jan 0001 12:00 AM", cal.min_day as i64 * US_DAY),
            (pf(Ty::Date, "YYYY DDD"), "9999 365", cal.max_day as i64),
        ];
        let mut c = cal.at(cal.min_day + range.start as i32);
        for idx in range {
            let tod = tods[(idx % 3) as usize];
            set_now(Some(clock(c.y, c.m, c.d, tod)));
            acc.states += 1;
            let (cy, cm) = (c.y as i64, c.m as i64);
            // partial pictures
            for p in &ps {
                match p.pic {
                    "DD" => for d in [1i64, 15, 28, 29, 30, 31] { one(acc, idx, "day-only", p, &format!("{d:02}"), compose(cal, p.ty, cy, cm, d, 0), &c); },
                    "MM-DD" => for (m, d) in [(2i64, 29i64), (12, 31), (1, 1)] { one(acc, idx, "month-day", p, &format!("{m:02}-{d:02}"), compose(cal, p.ty, cy, m, d, 0), &c); },
                    "YYYY" => for y in [2024i64, 2023, 1, 9999] { one(acc, idx, "year-only", p, &format!("{y:04}"), compose(cal, p.ty, y, cm, 1, 0), &c); },
                    "YYYY-DD" => for (y, d) in [(2023i64, 31i64), (2024, 29), (2023, 29), (2023, 30)] { one(acc, idx, "year-day", p, &format!("{y:04}-{d:02}"), compose(cal, p.ty, y, cm, d, 0), &c); },
                    "MM" => for m in [1i64, 2, 12] { one(acc, idx, "month-only", p, &format!("{m:02}"), compose(cal, p.ty, cy, m, 1, 0), &c); },
                    "DDD" => for ddd in [1i64, 59, 60, 365, 366] {
                        let exp = if ddd <= refmodel::calendar::year_len(c.y) as i64 { let t = cal.at(cal.year_start(c.y) + ddd as i32 - 1); compose(cal, p.ty, cy, t.m as i64, t.d as i64, 0) } else { None };
                        one(acc, idx, "day-of-year-only", p, &format!("{ddd:03}"), exp, &c);
                    },
                    "" => one(acc, idx, "empty-picture", p, "", compose(cal, p.ty, cy, cm, 1, 0), &c),
                    "HH24:MI" => one(acc, idx, "time-only", p, "13:45", compose(cal, p.ty, cy, cm, 1, 13 * US_HOUR + 45 * US_MIN), &c),
                    "MM-DD HH24" => one(acc, idx, "month-day", p, "02-29 07", compose(cal, p.ty, cy, 2, 29, 7 * US_HOUR), &c),
                    _ => unreachable!(),
                }
            }
            // one-, two-, three-digit years are completed with the leading digits of the current year
            for p in &py {
                let n: u32 = if p.pic.starts_with("YYY") { 3 } else if p.pic.starts_with("YY") { 2 } else { 1 };
                let modulus = 10i64.pow(n);
                let digits: &[i64] = match n { 1 => &[0, 1, 9], 2 => &[0, 1, 9, 21, 99], _ => &[0, 1, 9, 99, 999] };
                for &dg in digits {
                    let y = cy.div_euclid(modulus) * modulus + dg;
                    let (text, tod) = match p.pic {
                        "YY-MM-DD HH24" => (format!("{dg:0w$}-02-28 05", w = n as usize), 5 * US_HOUR),
                        "YYY/MM/DD" => (format!("{dg:0w$}/02/28", w = n as usize), 0),
                        "Y MM DD" | "YY MM DD" | "YYY MM DD" => (format!("{dg:0w$} 02 28", w = n as usize), 0),
                        "YY.MM.DD" => (format!("{dg:0w$}.02.28", w = n as usize), 0),
                        "YY:MM:DD" => (format!("{dg:0w$}:02:28", w = n as usize), 0),
                        "YY  MM  DD" => (format!("{dg:0w$}  02  28", w = n as usize), 0),
                        _ => (format!("{dg:0w$}-02-28", w = n as usize), 0),
                    };
                    one(acc, idx, "short-year-completion", p, &text, compose(cal, p.ty, y, 2, 28, tod), &c);
                    if dg == 21 || dg == 1 {
                        // a minus sign makes the year negative, whatever the clock completes it with
                        one(acc, idx, "negative-short-year", p, &format!("-{}", text), None, &c);
                    }
                    if p.pic == "YY-MM-DD" && dg == 21 {
                        // a leading '+' is a permitted spelling of the same two digits
                        one(acc, idx, "short-year-completion-with-plus-sign", p, "+21-02-28", compose(cal, p.ty, y, 2, 28, 0), &c);
                    }
                }
            }
            // omitted 12-hour field is 12
            for p in &ph {
                match p.pic {
                    "DD HH12" => one(acc, idx, "omitted-12-hour-field", p, "01", compose(cal, p.ty, cy, cm, 1, 12 * US_HOUR), &c),
                    _ => one(acc, idx, "omitted-12-hour-field", p, "2024-05-06", compose(cal, p.ty, 2024, 5, 6, 12 * US_HOUR), &c),
                }
            }
            // complete pictures do not depend on the clock (also: no clock read at all)
            for (p, text, val) in &complete {
                // independence is decided differentially: the same value under every injected clock.
                // (The read counter is only reported: reading the clock without using it is allowed.)
                let before = clock_reads();
                one(acc, idx, "complete-picture-independent-of-clock", p, text, Some(*val), &c);
                if clock_reads() != before { acc.cls("complete_picture_read_the_clock_without_using_it"); } else { acc.cls("complete_picture_no_clock_read"); }
            }
            for (k, (ty, pic, text)) in full_year_texts.iter().enumerate() {
                acc.t(1);
                acc.traces += 1;
                let got = guard(|| TV::parse(*ty, text, pic).ok());
                acc.cls("full_year_text_under_short_year_field");
                if got != Ok(full_year_base[k]) {
                    acc.fail(&format!("C18:{ty:?}:full-year-text:result-depends-on-the-clock"), idx, || (format!("clock = {:04}-{:02}-{:02}; {ty:?}::parse({text:?}, {pic:?})", c.y, c.m, c.d), format!("{:?} (the outcome under the clock 2000-01-01)", full_year_base[k]), format!("{got:?}"),
                        format!("// inject clock {:04}-{:02}-{:02}; parse {text:?} with {pic:?}; compare with the result under clock 2000-01-01", c.y, c.m, c.d)));
                }
            }
            // now() and Time -> Timestamp / OracleDate
            let now_us = c.n as i64 * US_DAY + tod;
            acc.t(5);
            let got = guard(|| (Date::now().map(|d| d.days() as i64).ok(), Timestamp::now().map(|t| t.usecs()).ok(), OracleDate::now().map(|t| t.usecs()).ok(),
                Timestamp::try_from(Time::try_from_usecs(US_HOUR + 1).unwrap()).map(|t| t.usecs()).ok(), OracleDate::try_from(Time::try_from_usecs(US_HOUR + 1).unwrap()).map(|t| t.usecs()).ok()));
            let want = (Some(c.n as i64), Some(now_us), Some(now_us / US_SEC * US_SEC - if now_us < 0 && now_us % US_SEC != 0 { US_SEC } else { 0 }), Some(c.n as i64 * US_DAY + US_HOUR + 1), Some(c.n as i64 * US_DAY + US_HOUR));
            if got != Ok(want) {
                acc.fail("C18:now-constructors:do-not-report-the-injected-clock", idx, || (format!("clock = {:04}-{:02}-{:02} + {tod} µs: Date::now / Timestamp::now / OracleDate::now / Timestamp::try_from(Time) / OracleDate::try_from(Time)", c.y, c.m, c.d), format!("{want:?}"), format!("{got:?}"), String::new()));
            } else { acc.cls("now_reports_clock"); }
            if c.n == 0 { acc.want_sample = true; acc.sample(|| json!({"clock": "1970-01-01", "picture": "DD", "text": "31", "impl": format!("{:?}", TV::parse_with(Ty::Date, "31", &ps[0].fmt))})); acc.want_sample = false; }
            c.next();
        }
        set_now(None);
    });
    ctx.require(&r, &["defaulted_value", "composed_date_does_not_exist", "now_reports_clock"]);

    // clocks with a sub-microsecond part: now() truncates (never rounds up, never fails)
    let nanos: [u32; 9] = [0, 1, 499, 500, 999, 1_000, 999_999_499, 999_999_500, 999_999_999];
    let r = ctx.sweep_each("sub_microsecond_clocks", "clocks at {0001-01-01, 1969-12-31, 1970-01-01, 2024-02-29, 9999-12-31} x {00:00:00, 12:34:56, 23:59:59} x nanoseconds {0,1,499,500,999,1000,999999499,999999500,999999999}", 5 * 3 * 9, 4, |idx, acc| {
        let n = [cal.min_day, -1, 0, cal.day_number(2024, 2, 29), cal.max_day][(idx / 27) as usize];
        let secs = [0u32, 12 * 3600 + 34 * 60 + 56, 86_399][((idx / 9) % 3) as usize];
        let ns = nanos[(idx % 9) as usize];
        let c = cal.at(n);
        let clk = chrono::NaiveDateTime::new(chrono::NaiveDate::from_ymd_opt(c.y, c.m, c.d).unwrap(), chrono::NaiveTime::from_num_seconds_from_midnight_opt(secs, ns).unwrap());
        set_now(Some(clk));
        acc.states += 1;
        acc.t(3);
        acc.traces += 1;
        let want_ts = n as i64 * US_DAY + secs as i64 * US_SEC + (ns / 1000) as i64;
        let got = guard(|| (Date::now().map(|d| d.days() as i64).ok(), Timestamp::now().map(|t| t.usecs()).ok(), OracleDate::now().map(|t| t.usecs()).ok()));
        if got != Ok((Some(n as i64), Some(want_ts), Some(n as i64 * US_DAY + secs as i64 * US_SEC))) {
            acc.fail("C18:now-constructors:sub-microsecond-clock-not-truncated", idx, || (format!("clock = {clk}: Date::now / Timestamp::now / OracleDate::now"), format!("day {n}, {want_ts} µs, whole second"), format!("{got:?}"), String::new()));
        } else { acc.cls("now_reports_clock"); if ns % 1000 != 0 { acc.nontrivial += 1; } }
        set_now(None);
    });
    ctx.require(&r, &["now_reports_clock"]);

    // clocks outside the supported range: errors, never panics
    let outs: Vec<(i32, u32, u32)> = vec![(0, 1, 1), (0, 12, 31), (10_000, 1, 1), (10_000, 6, 15), (-1, 3, 3), (20_000, 2, 29), (-4, 2, 29)];
    let outs_r = &outs;
    let r = ctx.sweep_each("clock_outside_supported_range", "clocks in years 0, 10000, -1, 20000, -4: partial pictures and now() constructors must fail with an error; pictures with a full year still work", outs.len() as u64, 1, |idx, acc| {
        let (y, m, d) = outs_r[idx as usize];
        set_now(Some(clock(y, m, d, 3_600_000_000)));
        let fake = Cal { n: 0, y, m, d, wd: 1, doy: 1 };
        acc.states += 1;
        for (ty, pic, text) in [(Ty::Date, "DD", "01"), (Ty::Date, "MM-DD", "01-01"), (Ty::Timestamp, "HH24", "05"), (Ty::OracleDate, "", ""), (Ty::Date, "DDD", "001")] {
            let p = pf(ty, pic);
            one(acc, idx, "clock-year-out-of-range", &p, text, None, &fake);
        }
        let p = pf(Ty::Date, "YYYY");
        one(acc, idx, "clock-year-out-of-range-but-year-given", &p, "2024", compose(cal, Ty::Date, 2024, m as i64, 1, 0), &fake);
        acc.t(5);
        let got = guard(|| (Date::now().is_err(), Timestamp::now().is_err(), OracleDate::now().is_err(), Timestamp::try_from(Time::ZERO).is_err(), OracleDate::try_from(Time::ZERO).is_err()));
        if got != Ok((true, true, true, true, true)) {
            acc.fail("C18:now-constructors:clock-outside-range-not-an-error", idx, || (format!("clock year {y}: now() constructors"), "all Err".into(), format!("{got:?}"), String::new()));
        } else { acc.cls("now_fails_cleanly"); acc.nontrivial += 1; }
        set_now(None);
    });
    ctx.require(&r, &["composed_date_does_not_exist", "now_fails_cleanly"]);

    // month-end grid: every clock month of a leap and a common year x every day 28..31 x DD / MM-DD pictures
    let r = ctx.sweep_each("month_end_grid", "every clock (year in {2023, 2024, 1900, 2000}, month, day 1) x day texts 01..31 under 'DD' and every 'MM-DD' under the clock year", 4 * 12, 1, |idx, acc| {
        let y = [2023, 2024, 1900, 2000][(idx / 12) as usize];
        let m = (idx % 12) as u32 + 1;
        set_now(Some(clock(y, m, 1, 0)));
        let fake = cal.at(cal.day_number(y, m, 1));
        acc.states += 1;
        let pd = pf(Ty::Date, "DD");
        let pmd = pf(Ty::Timestamp, "MM-DD");
        for d in 0..=32i64 {
            one(acc, idx, "day-only", &pd, &format!("{d:02}"), compose(cal, Ty::Date, y as i64, m as i64, d, 0), &fake);
            for mm in 1..=12i64 {
                one(acc, idx, "month-day", &pmd, &format!("{mm:02}-{d:02}"), compose(cal, Ty::Timestamp, y as i64, mm, d, 0), &fake);
            }
        }
        let _ = month_len(y, m);
        set_now(None);
    });
    ctx.require(&r, &["defaulted_value", "composed_date_does_not_exist"]);

    // ownership proof (ii): a fixed slice of configurations executed a second time gives identical observations
    let mut obs = Vec::new();
    for round in 0..2 {
        let mut o = Vec::new();
        for n in [cal.min_day, -1, 0, cal.day_number(2024, 2, 29), cal.max_day] {
            let c = cal.at(n);
            set_now(Some(clock(c.y, c.m, c.d, 1)));
            for (ty, pic, text) in [(Ty::Date, "DD", "29"), (Ty::Timestamp, "YY-MM-DD", "99-12-31"), (Ty::OracleDate, "HH24", "23")] {
                o.push(format!("{:?}", TV::parse(ty, text, pic)));
            }
        }
        set_now(None);
        let _ = round;
        obs.push(o);
    }
    if obs[0] != obs[1] {
        ctx.machinery_failure("clock ownership: replaying the same (clock, picture, text) configurations gave different observations".into());
    }
    ctx.extra("clock_reads_total_on_main_thread", json!(clock_reads()));

    // hidden state: every ordered pair of clock-dependent calls (each injects its own clock) on a fresh thread against the lone call
    crate::histpairs::pairwise(ctx, "C18", "parse_with_clock_defaults", crate::histpairs::calls_parse_clock());
}
