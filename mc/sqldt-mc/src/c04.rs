//! C04 — formatting renders every field exactly as the picture specifies.

use crate::c19::token_spellings;
use crate::common::*;
use crate::pools::*;
use crate::probe::*;
use explorer::serde_json::json;
use explorer::{Acc, Ctx};
use refmodel::picture::{case_unspecified, render, tokenize, Fields, Tok, Ty, ALL_TYPES};
use sqldatetime::Formatter;
use std::fmt::Write;

/// Compare the real rendering of `tv` under a compiled picture with the reference rendering.
pub fn check_format(acc: &mut Acc, idx: u64, tv: &TV, fields: &Fields, fmt: &Formatter, toks: &[Tok], pic: &str) {
    acc.t(1);
    acc.traces += 1;
    let want = render(toks, tv.ty, fields);
    let got = guard(|| tv.format_with(fmt));
    let loose = toks.iter().any(case_unspecified);
    let ok = match (&want, &got) {
        (Some(w), Ok(Ok(g))) => if loose { g.eq_ignore_ascii_case(w) } else { g == w },
        (None, Ok(Err(_))) => true,
        _ => false,
    };
    match &want { Some(_) => acc.cls("rendered"), None => { acc.cls("inapplicable_token_error"); acc.nontrivial += 1; } }
    if !ok {
        let kind = match (&want, &got) {
            (_, Err(())) => "panic",
            (None, Ok(Ok(_))) => "renders-inapplicable-token",
            (Some(_), Ok(Err(_))) => "fails-on-applicable-tokens",
            _ => "wrong-text",
        };
        let tokname = if toks.len() == 1 { format!("{:?}", toks[0]).split(['(', ' ', '{']).next().unwrap_or("tok").to_string() } else { "composite".to_string() };
        acc.fail(&format!("C04:{:?}:{tokname}:{kind}", tv.ty), idx, || {
            (format!("{} formatted with picture {pic:?}", tv.show()), match &want { Some(w) => format!("{w:?}"), None => "Err (a token does not apply to this type)".into() }, format!("{got:?}"),
             format!("// value {} ; picture {pic:?}", tv.show()))
        });
    }
}

struct Compiled {
    pic: String,
    toks: Vec<Tok>,
    fmt: Formatter,
}

fn compile(pics: &[&str]) -> Vec<Compiled> {
    pics.iter().map(|p| Compiled { pic: p.to_string(), toks: tokenize(p.as_bytes()).expect("reference accepts"), fmt: Formatter::try_new(p).expect("crate accepts") }).collect()
}

const DATE_TOKENS: [&str; 30] = [
    "YYYY", "YYY", "YY", "Y", "yyyy", "MM", "mm", "MON", "Mon", "mon", "MONTH", "Month", "month", "DD", "dd", "DDD", "ddd", "D", "d", "DAY", "Day", "day", "DY", "Dy", "dy", "W", "w",
    "WW", "ww", "mONTH",
];
const TIME_TOKENS: [&str; 26] = [
    "HH", "hh", "HH12", "hh12", "HH24", "hh24", "MI", "mi", "SS", "ss", "AM", "am", "PM", "pm", "A.M.", "a.m.", "P.M.", "p.m.", "Am", "aM", "Pm", "pM", "A.m.", "a.M.", "P.m.", "p.M.",
];
const FRACTION_TOKENS: [&str; 11] = ["FF", "FF1", "FF2", "FF3", "FF4", "FF5", "FF6", "FF7", "FF8", "FF9", "ff"];

/// Day counts / year counts 0..=1100 and every power of ten +/-1 up to the limits, both signs.
pub fn interval_width_values() -> Vec<TV> {
    let mut widths: Vec<TV> = Vec::new();
    let mut ks: Vec<i64> = (0..=1_100).collect();
    let mut p10 = 10i64;
    while p10 <= 100_000_000 { ks.extend_from_slice(&[p10 - 1, p10, p10 + 1]); p10 *= 10; }
    ks.extend_from_slice(&[99_999_999, 100_000_000, 177_999_999, 178_000_000]);
    for &k in &ks {
        if k <= 100_000_000 {
            for t in [0, US_DAY - 1] { for sg in [1i64, -1] { let u = k * US_DAY + if k == 100_000_000 { 0 } else { t }; widths.push(TV { ty: Ty::IntervalDT, raw: sg * u }); } }
        }
        if k <= 178_000_000 {
            for m in [0i64, 11] { for sg in [1i64, -1] { let v = k * 12 + if k == 178_000_000 { 0 } else { m }; widths.push(TV { ty: Ty::IntervalYM, raw: sg * v }); } }
        }
    }
    widths
}

pub fn run(ctx: &mut Ctx) {
    let w = world();
    let cal = &w.cal;
    let seed = ctx.seed;
    ctx.rule("a case is one (value, picture) pair at a distinct sweep index; non-trivial = the picture has more than one token or a token that does not apply to the value's type (must yield an error, not text)");
    ctx.assume("reference: integer-arithmetic renderer over the reference token sequence (refmodel/picture.rs); mixed-case AM/PM spellings are compared case-insensitively (the property does not define their output case)");

    // a. all dates x every date token, on Date and on Timestamp / OracleDate at midnight
    let total = cal.total_days() as u64;
    let r = ctx.sweep("dates_x_date_tokens", "all dates x every date token in every letter case, on Date, Timestamp@00:00 and OracleDate@00:00", total, 1024, |range, acc| {
        let cs = compile(&DATE_TOKENS);
        let mut c = cal.at(cal.min_day + range.start as i32);
        for idx in range {
            let f = Fields { year: c.y as i64, month: c.m, day: c.d, weekday: c.wd, doy: c.doy, ..Fields::default() };
            let vals = [TV { ty: Ty::Date, raw: c.n as i64 }, TV { ty: Ty::Timestamp, raw: c.n as i64 * US_DAY }, TV { ty: Ty::OracleDate, raw: c.n as i64 * US_DAY }];
            acc.states += 1;
            for tv in &vals {
                for k in &cs {
                    check_format(acc, idx, tv, &f, &k.fmt, &k.toks, &k.pic);
                }
            }
            if c.n == 0 { acc.want_sample = true; acc.sample(|| json!({"value": "Date 1970-01-01", "picture": "Day", "impl": format!("{:?}", vals[0].format_with(&cs[20].fmt)), "reference": render(&cs[20].toks, Ty::Date, &f)})); acc.want_sample = false; }
            c.next();
        }
    });
    ctx.require(&r, &["rendered"]);

    // a'. the weekday / day-of-year / week tokens of a timestamp come from its date part whatever the time of day
    let crit = crit_times();
    let crit_r = &crit;
    let r = ctx.sweep("dates_x_times_x_weekday_tokens", "all dates x 3 rotating critical times of day (incl. multiples of 2^32 µs and the last µs of the day) x weekday / day-of-year / week tokens on Timestamp and OracleDate", total, 1024, |range, acc| {
        let cs = compile(&["DAY", "Dy", "D", "DDD", "WW", "W", "YYYY-MM-DD DY"]);
        let mut c = cal.at(cal.min_day + range.start as i32);
        for idx in range {
            acc.states += 1;
            for j in 0..3usize {
                let t = crit_r[(idx as usize * 3 + j * 29) % crit_r.len()];
                let f = Fields { year: c.y as i64, month: c.m, day: c.d, weekday: c.wd, doy: c.doy, hour: (t / US_HOUR) as u32, minute: (t / US_MIN % 60) as u32, second: (t / US_SEC % 60) as u32, micro: (t % US_SEC) as u32, negative: false };
                let vals = [TV { ty: Ty::Timestamp, raw: c.n as i64 * US_DAY + t }, TV { ty: Ty::OracleDate, raw: c.n as i64 * US_DAY + t / US_SEC * US_SEC }];
                for tv in &vals {
                    for k in &cs {
                        check_format(acc, idx, tv, &f, &k.fmt, &k.toks, &k.pic);
                    }
                }
            }
            c.next();
        }
    });
    ctx.require(&r, &["rendered"]);

    // b. all seconds x every time token on Time; Timestamp / OracleDate on three dates
    let days3 = [cal.min_day, -1, cal.max_day];
    let r = ctx.sweep("seconds_x_time_tokens", "all 86,400 seconds x every time token (24h/12h hour, minute, second, all AM/PM spellings) on Time, and on Timestamp / OracleDate at three dates", 86_400, 512, |range, acc| {
        let cs = compile(&TIME_TOKENS);
        for idx in range {
            let t = idx as i64 * US_SEC;
            acc.states += 1;
            let tv = TV { ty: Ty::Time, raw: t };
            let f = tv.fields();
            for k in &cs {
                check_format(acc, idx, &tv, &f, &k.fmt, &k.toks, &k.pic);
            }
            for &n in &days3 {
                for ty in [Ty::Timestamp, Ty::OracleDate] {
                    let tv = TV { ty, raw: n as i64 * US_DAY + t };
                    let f = tv.fields();
                    for k in &cs {
                        check_format(acc, idx, &tv, &f, &k.fmt, &k.toks, &k.pic);
                    }
                }
            }
        }
    });
    ctx.require(&r, &["rendered"]);

    // c. all microseconds x fraction tokens
    let r = ctx.sweep("micros_x_fraction_tokens", "all 1,000,000 microsecond values x {FF, FF1..FF9, ff} on Time; every 97th also on Timestamp (before 1970) and on a negative IntervalDT", 1_000_000, 4096, |range, acc| {
        let cs = compile(&FRACTION_TOKENS);
        for idx in range {
            let us = idx as i64;
            acc.states += 1;
            let tv = TV { ty: Ty::Time, raw: 12 * US_HOUR + us };
            let f = tv.fields();
            for k in &cs {
                check_format(acc, idx, &tv, &f, &k.fmt, &k.toks, &k.pic);
            }
            if idx % 97 == 0 {
                for tv in [TV { ty: Ty::Timestamp, raw: -US_DAY + us }, TV { ty: Ty::IntervalDT, raw: -(3 * US_DAY + us) }] {
                    let f = tv.fields();
                    for k in &cs {
                        check_format(acc, idx, &tv, &f, &k.fmt, &k.toks, &k.pic);
                    }
                }
            }
        }
    });
    ctx.require(&r, &["rendered"]);

    // d. intervals
    let ym_span: i64 = 120_000;
    let ym_pool = pool_ym(seed);
    let ymp = &ym_pool;
    let r = ctx.sweep_each("interval_ym_values", "every year-month interval with |months| <= 120,000 plus the boundary pool x {YYYY, YYY, YY, Y, MM, composite}", (2 * ym_span + 1) as u64 + ym_pool.len() as u64, 4096, |idx, acc| {
        thread_local! { static CS: Vec<Compiled> = compile(&["YYYY", "YYY", "YY", "Y", "MM", "YYYY-MM", "yy mm"]); }
        let m = if (idx as i64) < 2 * ym_span + 1 { idx as i64 - ym_span } else { ymp[(idx as i64 - 2 * ym_span - 1) as usize] as i64 };
        let tv = TV { ty: Ty::IntervalYM, raw: m };
        let f = tv.fields();
        acc.states += 1;
        CS.with(|cs| { for k in cs { check_format(acc, idx, &tv, &f, &k.fmt, &k.toks, &k.pic); } });
    });
    ctx.require(&r, &["rendered"]);
    let dt_pool = pool_dt(seed);
    let dtp = &dt_pool;
    let span_s: i64 = 2 * 86_400;
    let r = ctx.sweep_each("interval_dt_values", "every second within +/-2 days plus the boundary pool x {DD, HH24, MI, SS, FF, FF3, FF9, composite}", (2 * span_s + 1) as u64 + dt_pool.len() as u64, 4096, |idx, acc| {
        thread_local! { static CS: Vec<Compiled> = compile(&["DD", "HH24", "MI", "SS", "FF", "FF3", "FF9", "DD HH24:MI:SS.FF6", "dd"]); }
        let u = if (idx as i64) < 2 * span_s + 1 { (idx as i64 - span_s) * US_SEC + if idx % 3 == 1 { 999_999 * (idx as i64 - span_s).signum() } else { 0 } } else { dtp[(idx as i64 - 2 * span_s - 1) as usize] };
        let tv = TV { ty: Ty::IntervalDT, raw: u };
        let f = tv.fields();
        acc.states += 1;
        CS.with(|cs| { for k in cs { check_format(acc, idx, &tv, &f, &k.fmt, &k.toks, &k.pic); } });
    });
    ctx.require(&r, &["rendered"]);

    // d'. field-width boundaries of the variable-width interval fields
    let widths = interval_width_values();
    let wr = &widths;
    let r = ctx.sweep_each("interval_field_widths", "day counts / year counts 0..=1100 and every power of ten +/-1 up to the limits, both signs: DD, YYYY..Y and the composite layouts (field padded to at least the token width, never truncated)", widths.len() as u64, 256, |idx, acc| {
        thread_local! { static CS: (Vec<Compiled>, Vec<Compiled>) = (compile(&["DD", "dd HH24:MI:SS.FF6", "DD;FF9"]), compile(&["YYYY", "YYY", "YY", "Y", "yyyy-MM", "Y MM"])); }
        let tv = &wr[idx as usize];
        let f = tv.fields();
        acc.states += 1;
        CS.with(|cs| { for k in if tv.ty == Ty::IntervalDT { &cs.0 } else { &cs.1 } { check_format(acc, idx, tv, &f, &k.fmt, &k.toks, &k.pic); } });
    });
    ctx.require(&r, &["rendered"]);

    // e. composite pictures: every token sequence up to the length bound x value pools of all types
    let sp = token_spellings();
    let seq_len: u32 = 3;
    let ns = sp.len() as u64;
    let npics: u64 = (1..=seq_len).map(|l| ns.pow(l)).sum();
    let mut vals: Vec<TV> = Vec::new();
    let step = if ctx.thorough() { 3 } else { 5 };
    for &n in pool_dates(w, seed).iter().step_by(step) { vals.push(TV { ty: Ty::Date, raw: n as i64 }); }
    for &t in pool_times(seed).iter().step_by(2) { vals.push(TV { ty: Ty::Time, raw: t }); }
    for &u in pool_ts(w, seed).iter().step_by(step) { vals.push(TV { ty: Ty::Timestamp, raw: u }); }
    for &m in pool_ym(seed).iter().step_by(step) { vals.push(TV { ty: Ty::IntervalYM, raw: m as i64 }); }
    for &u in pool_dt(seed).iter().step_by(step) { vals.push(TV { ty: Ty::IntervalDT, raw: u }); }
    for &u in pool_od(w, seed).iter().step_by(step) { vals.push(TV { ty: Ty::OracleDate, raw: u }); }
    let fields: Vec<Fields> = vals.iter().map(|v| v.fields()).collect();
    ctx.bound("composite", json!({"token_spellings": sp.len(), "max_sequence_length": seq_len, "pictures": npics, "values": vals.len()}));
    let (sp_r, vals_r, fields_r) = (&sp, &vals, &fields);
    let r = ctx.sweep_each("composite_token_sequences", "every sequence of token spellings up to the length bound (re-lexed by the reference tokenizer) x value pools of all six types", npics, 64, |idx, acc| {
        // decode the sequence
        let mut rest = idx;
        let mut len = 1u32;
        while rest >= ns.pow(len) { rest -= ns.pow(len); len += 1; }
        let mut pic = String::new();
        let mut parts = Vec::new();
        for _ in 0..len { parts.push((rest % ns) as usize); rest /= ns; }
        for p in parts.iter().rev() { pic.push_str(sp_r[*p]); }
        let toks = match tokenize(pic.as_bytes()) { Some(t) => t, None => { acc.cls("concatenation_not_a_picture"); return; } };
        let fmt = match guard(|| Formatter::try_new(&pic)) {
            Ok(Ok(f)) => f,
            other => { acc.fail("C04:composite:picture-rejected", idx, || (format!("Formatter::try_new({pic:?})"), "Ok".into(), format!("{:?}", other.map(|r| r.map(|_| ()))), String::new())); return; }
        };
        acc.states += 1;
        for (tv, f) in vals_r.iter().zip(fields_r.iter()) {
            check_format(acc, idx, tv, f, &fmt, &toks, &pic);
        }
    });
    ctx.require(&r, &["rendered", "inapplicable_token_error"]);

    // 36-token pictures: rotations of the token list
    let mut long_pics: Vec<String> = Vec::new();
    for start in 0..sp.len() {
        for stride in [1usize, 5, 11] {
            let mut s = String::new();
            let mut count = 0;
            let mut i = 0;
            while count < 36 {
                let t = sp[(start + i * stride) % sp.len()];
                i += 1;
                let cand = format!("{s}{t}");
                match tokenize(cand.as_bytes()) { Some(tk) if tk.len() <= 36 => { count = tk.len(); s = cand; } _ => { if i > 200 { break; } } }
            }
            long_pics.push(s);
        }
    }
    let lp = &long_pics;
    let r = ctx.sweep_each("long_pictures", "pictures of up to 36 tokens (rotations of the token list with strides 1, 5, 11) x value pools of all six types", long_pics.len() as u64, 4, |idx, acc| {
        let pic = &lp[idx as usize];
        let toks = tokenize(pic.as_bytes()).unwrap();
        let fmt = match guard(|| Formatter::try_new(pic)) { Ok(Ok(f)) => f, other => { acc.fail("C04:composite:picture-rejected", idx, || (format!("Formatter::try_new({pic:?})"), "Ok".into(), format!("{:?}", other.map(|r| r.map(|_| ()))), String::new())); return; } };
        acc.states += 1;
        for (tv, f) in vals_r.iter().zip(fields_r.iter()) {
            check_format(acc, idx, tv, f, &fmt, &toks, pic);
        }
    });
    ctx.require(&r, &["rendered", "inapplicable_token_error"]);

    // blank runs are copied with their length (every length 1..=600, powers of two up to 2^17)
    let mut blens: Vec<usize> = (1..=600).collect();
    for e in 10..=17u32 { blens.push(1 << e); blens.push((1 << e) + 1); }
    let bl = &blens;
    let r = ctx.sweep_each("blank_runs_copied", "pictures 'DD<n blanks>MM' for every n in 1..=600 and powers of two up to 2^17 on Date and IntervalYM ('MM' part), rendered with exactly n blanks", blens.len() as u64, 8, |idx, acc| {
        let n = bl[idx as usize];
        let pic = format!("YYYY{}MM", " ".repeat(n));
        let toks = tokenize(pic.as_bytes()).unwrap();
        let fmt = match guard(|| Formatter::try_new(&pic)) { Ok(Ok(f)) => f, _ => { acc.fail("C04:composite:picture-rejected", idx, || (format!("picture with a run of {n} blanks"), "Ok".into(), "Err".into(), String::new())); return; } };
        acc.states += 1;
        for tv in [TV { ty: Ty::Date, raw: 18_739 }, TV { ty: Ty::IntervalYM, raw: -17 }] {
            check_format(acc, idx, &tv, &tv.fields(), &fmt, &toks, &format!("YYYY<{n} blanks>MM"));
        }
    });
    ctx.require(&r, &["rendered"]);

    // hidden state behind the renderer: alternation of every date with two anchors (formatted text compared)
    crate::history::alternating_with_anchor(ctx, "C04", crate::history::Family::Accessors);

    // f. applicability through the Display path: every (token, type) pair, write! into a sink
    let tys = ALL_TYPES;
    let r = ctx.sweep_each("applicability_display_sink", "every (token spelling, type) pair: value.format(picture) written into a String sink with write!; an inapplicable token must surface as Err, an applicable one as the reference text", (sp.len() * tys.len()) as u64, 16, |idx, acc| {
        let t = sp_r[idx as usize / tys.len()];
        let ty = tys[idx as usize % tys.len()];
        let tv = match ty {
            Ty::Date => TV { ty, raw: 18_739 },
            Ty::Time => TV { ty, raw: 13 * US_HOUR + 7 * US_MIN + 9 * US_SEC + 123_456 },
            Ty::Timestamp => probe_ts(),
            Ty::IntervalYM => TV { ty, raw: -(12 * 1234 + 5) },
            Ty::IntervalDT => TV { ty, raw: 45 * US_DAY + 13 * US_HOUR + 7 * US_MIN + 9 * US_SEC + 123_456 },
            Ty::OracleDate => TV { ty, raw: probe_ts().raw / US_SEC * US_SEC },
        };
        let toks = tokenize(t.as_bytes()).unwrap();
        let want = render(&toks, ty, &tv.fields());
        acc.states += 1;
        acc.t(1);
        acc.traces += 1;
        let got: Result<Result<String, ()>, ()> = guard(|| {
            let mut sink = String::new();
            let r = match ty {
                Ty::Date => sqldatetime::Date::try_from_days(tv.raw as i32).unwrap().format(t).map_err(|_| ()).and_then(|d| write!(sink, "{}", d).map_err(|_| ())),
                Ty::Time => sqldatetime::Time::try_from_usecs(tv.raw).unwrap().format(t).map_err(|_| ()).and_then(|d| write!(sink, "{}", d).map_err(|_| ())),
                Ty::Timestamp => sqldatetime::Timestamp::try_from_usecs(tv.raw).unwrap().format(t).map_err(|_| ()).and_then(|d| write!(sink, "{}", d).map_err(|_| ())),
                Ty::IntervalYM => sqldatetime::IntervalYM::try_from_months(tv.raw as i32).unwrap().format(t).map_err(|_| ()).and_then(|d| write!(sink, "{}", d).map_err(|_| ())),
                Ty::IntervalDT => sqldatetime::IntervalDT::try_from_usecs(tv.raw).unwrap().format(t).map_err(|_| ()).and_then(|d| write!(sink, "{}", d).map_err(|_| ())),
                Ty::OracleDate => sqldatetime::OracleDate::try_from_usecs(tv.raw).unwrap().format(t).map_err(|_| ()).and_then(|d| write!(sink, "{}", d).map_err(|_| ())),
            };
            r.map(|_| sink)
        });
        let loose = toks.iter().any(case_unspecified);
        let ok = match (&want, &got) { (Some(w), Ok(Ok(g))) => if loose { g.eq_ignore_ascii_case(w) } else { g == w }, (None, Ok(Err(()))) => true, _ => false };
        match &want { Some(_) => acc.cls("rendered"), None => { acc.cls("inapplicable_token_error"); acc.nontrivial += 1; } }
        if !ok {
            acc.fail(&format!("C04:{ty:?}:display-sink:applicability-or-text-wrong"), idx, || (format!("write!(sink, \"{{}}\", {}.format({t:?})?)", tv.show()), format!("{want:?}"), format!("{got:?}"), String::new()));
        }
    });
    ctx.require(&r, &["rendered", "inapplicable_token_error"]);

    // hidden state: every ordered pair of format calls on a fresh thread against the lone call
    crate::histpairs::pairwise(ctx, "C04", "compile_and_format", crate::histpairs::calls_format());
}
