//! C12 — time-of-day arithmetic wraps modulo 24 hours.

use crate::common::*;
use explorer::serde_json::json;
use explorer::Ctx;
use sqldatetime::{IntervalDT, Time};
use std::cmp::Ordering;

pub fn interval_alphabet(seed: u64) -> Vec<i64> {
    let limit = 100_000_000i64 * US_DAY;
    let mut v: Vec<i64> = vec![0];
    let pos: Vec<i64> = vec![
        1, 2, 999_999, US_SEC, US_MIN, US_HOUR, 12 * US_HOUR, 12 * US_HOUR + 1, US_DAY - 1, US_DAY, US_DAY + 1, 2 * US_DAY - 1, 2 * US_DAY, 7 * US_DAY,
        1000 * US_DAY, 99_999_999 * US_DAY, limit - 1, limit, limit - US_DAY, limit - US_DAY + 1,
        3 * US_DAY + 4 * US_HOUR + 5 * US_MIN + 6 * US_SEC + 7, 86_399_999_999 + 5 * US_DAY,
    ];
    for p in pos {
        v.push(p);
        v.push(-p);
    }
    for k in 0..8u64 {
        let r = splitmix(seed ^ (0xC12 + k)) % (2 * limit as u64 + 1);
        v.push((r as i128 - limit as i128) as i64);
    }
    v.sort();
    v.dedup();
    v
}

pub fn time_pool(seed: u64) -> Vec<i64> {
    let mut v = crit_times();
    v.extend_from_slice(&[2, US_SEC + 1, US_MIN - 1, US_MIN, US_HOUR - 1, US_HOUR, 6 * US_HOUR, 18 * US_HOUR + 7, US_DAY - 2]);
    for k in 0..8u64 {
        v.push((splitmix(seed ^ (0x71E + k)) % US_DAY as u64) as i64);
    }
    v.sort();
    v.dedup();
    v
}

pub fn run(ctx: &mut Ctx) {
    let ivs = interval_alphabet(ctx.seed);
    let pool = time_pool(ctx.seed);
    ctx.rule("a case is one (time, interval | time, operation) triple at a distinct sweep index; non-trivial = the exact sum leaves 0..24h (a wrap is exercised) or the operands differ");
    ctx.assume("reference: rem_euclid in i128");
    ctx.bound("interval_alphabet", json!(ivs.len()));
    ctx.bound("time_pool", json!(pool.len()));
    let (ivs, pool) = (&ivs, &pool);

    let ni = ivs.len() as u64;
    let r = ctx.sweep("seconds_x_intervals", "every second of the day x µs {0,1,999999} x interval alphabet x {add, sub}", 86_400 * 3 * ni, 1 << 14, |range, acc| {
        for idx in range {
            let iv_us = ivs[(idx % ni) as usize];
            let k = idx / ni;
            let t_us = (k / 3) as i64 * US_SEC + [0i64, 1, 999_999][(k % 3) as usize];
            let t = Time::try_from_usecs(t_us).unwrap();
            let iv = match IntervalDT::try_from_usecs(iv_us) {
                Ok(i) => i,
                Err(_) => { acc.fail("C12:IntervalDT:try_from_usecs:rejects-in-range", idx, || (format!("IntervalDT::try_from_usecs({iv_us})"), "Ok".into(), "Err".into(), String::new())); continue; }
            };
            acc.states += 1;
            for sub in [false, true] {
                acc.t(1);
                acc.traces += 1;
                let exact = if sub { t_us as i128 - iv_us as i128 } else { t_us as i128 + iv_us as i128 };
                let want = exact.rem_euclid(US_DAY as i128) as i64;
                if exact < 0 { acc.cls("wraps_below_zero"); acc.nontrivial += 1; } else if exact >= US_DAY as i128 { acc.cls("wraps_past_midnight"); acc.nontrivial += 1; } else { acc.cls("no_wrap"); }
                let got = guard(|| if sub { t.sub_interval_dt(iv) } else { t.add_interval_dt(iv) }.usecs());
                if got != Ok(want) {
                    let op = if sub { "sub_interval_dt" } else { "add_interval_dt" };
                    acc.fail(&format!("C12:Time:{op}:not-modulo-24h"), idx, || {
                        (format!("Time({t_us} µs = {}).{op}(IntervalDT({iv_us} µs))", fmt_time(t_us)), format!("{want} µs = {}", fmt_time(want)), format!("{got:?}"),
                         format!("assert_eq!(Time::try_from_usecs({t_us}).unwrap().{op}(IntervalDT::try_from_usecs({iv_us}).unwrap()).usecs(), {want});"))
                    });
                }
            }
            if idx == 0 { acc.sample(|| json!({"time_usecs": t_us, "interval_usecs": iv_us, "add": t.add_interval_dt(iv).usecs(), "sub": t.sub_interval_dt(iv).usecs()})); }
        }
    });
    ctx.require(&r, &["wraps_below_zero", "wraps_past_midnight", "no_wrap"]);

    // sums landing exactly on a multiple of a day (from both sides, any magnitude)
    let r = ctx.sweep_each("sums_landing_on_midnight", "every second of the day x µs {0,1,999999} x k in -3..=3 (and +/-99,999,999): interval = k days - time, so that time + interval is an exact multiple of a day; add and sub of the negation", 86_400 * 3, 4096, |idx, acc| {
        let t_us = (idx / 3) as i64 * US_SEC + [0i64, 1, 999_999][(idx % 3) as usize];
        let t = Time::try_from_usecs(t_us).unwrap();
        acc.states += 1;
        for k in [-99_999_999i64, -3, -2, -1, 0, 1, 2, 3, 99_999_999] {
            let iv_us = k * US_DAY - t_us;
            let iv = match IntervalDT::try_from_usecs(iv_us) { Ok(i) => i, Err(_) => continue };
            let niv = IntervalDT::try_from_usecs(-iv_us).unwrap();
            acc.t(2);
            acc.traces += 1;
            acc.nontrivial += 1;
            let got = guard(|| (t.add_interval_dt(iv).usecs(), t.sub_interval_dt(niv).usecs()));
            if k < 0 || (k == 0 && t_us > 0) { acc.cls("negative_multiple_of_a_day") } else { acc.cls("non_negative_multiple_of_a_day") }
            if got != Ok((0, 0)) {
                acc.fail("C12:Time:add_interval_dt:sum-on-day-multiple-not-midnight", idx, || (format!("Time({t_us}).add_interval_dt(IntervalDT({iv_us})) / sub_interval_dt(IntervalDT({}))", -iv_us), "00:00:00 (0 µs) from both".into(), format!("{got:?}"),
                    format!("assert_eq!(Time::try_from_usecs({t_us}).unwrap().add_interval_dt(IntervalDT::try_from_usecs({iv_us}).unwrap()).usecs(), 0);")));
            }
        }
    });
    ctx.require(&r, &["negative_multiple_of_a_day", "non_negative_multiple_of_a_day"]);

    if ctx.thorough() {
        // complete product at second resolution: every second of the day x every whole-second interval within +/-1 day
        let r = ctx.sweep("all_seconds_x_all_second_intervals", "every second of the day (µs part = s mod 7 x 142,857) x every whole-second interval in -86,400..=86,400 s (and the same +/-3 µs) x {add, sub}; sub_time of every pair of seconds", 86_400, 16, |range, acc| {
            for idx in range {
                let t_us = idx as i64 * US_SEC + (idx as i64 % 7) * 142_857;
                let t = Time::try_from_usecs(t_us).unwrap();
                for s in -86_400i64..=86_400 {
                    let iv_us = s * US_SEC + (s % 7 - 3);
                    let iv = IntervalDT::try_from_usecs(iv_us).unwrap();
                    acc.states += 1;
                    acc.t(2);
                    acc.traces += 2;
                    let wa = (t_us + iv_us).rem_euclid(US_DAY);
                    let ws = (t_us - iv_us).rem_euclid(US_DAY);
                    if wa != t_us + iv_us || ws != t_us - iv_us { acc.nontrivial += 1; }
                    let got = guard(|| (t.add_interval_dt(iv).usecs(), t.sub_interval_dt(iv).usecs()));
                    if got != Ok((wa, ws)) {
                        acc.fail("C12:Time:add_interval_dt:not-modulo-24h", idx, || (format!("Time({t_us}).add_interval_dt / sub_interval_dt (IntervalDT({iv_us}))"), format!("({wa}, {ws})"), format!("{got:?}"), String::new()));
                    }
                    if s >= 0 && s < 86_400 {
                        let b = s * US_SEC + (s % 5) * 199_999;
                        acc.t(1);
                        let d = guard(|| t.sub_time(Time::try_from_usecs(b).unwrap()).usecs());
                        if d != Ok(t_us - b) {
                            acc.fail("C12:Time:sub_time:not-exact-difference", idx, || (format!("Time({t_us}).sub_time(Time({b}))"), format!("{}", t_us - b), format!("{d:?}"), String::new()));
                        }
                    }
                }
                acc.cls("second_done");
            }
        });
        ctx.require(&r, &["second_done"]);
    }

    // differences
    let np = pool.len() as u64;
    let others: [i64; 3] = [0, 43_200 * US_SEC, US_DAY - 1];
    let n_pairs = np * np + 86_400 * 3 * 2;
    let r = ctx.sweep_each("sub_time", "pool(Time)^2 and every second vs {00:00, 12:00, 23:59:59.999999} in both orders", n_pairs, 1 << 14, |idx, acc| {
        let (a, b) = if idx < np * np { (pool[(idx / np) as usize], pool[(idx % np) as usize]) } else {
            let k = idx - np * np;
            let s = (k / 6) as i64 * US_SEC;
            let o = others[(k % 3) as usize];
            if (k / 3) % 2 == 0 { (s, o) } else { (o, s) }
        };
        acc.states += 1;
        acc.t(1);
        acc.traces += 1;
        let (ta, tb) = (Time::try_from_usecs(a).unwrap(), Time::try_from_usecs(b).unwrap());
        let got = guard(|| ta.sub_time(tb).usecs());
        if a != b { acc.nontrivial += 1; }
        if a < b { acc.cls("negative_difference") } else { acc.cls("non_negative_difference") }
        if got != Ok(a - b) {
            acc.fail("C12:Time:sub_time:not-exact-difference", idx, || (format!("Time({a}).sub_time(Time({b}))"), format!("{}", a - b), format!("{got:?}"),
                format!("assert_eq!(Time::try_from_usecs({a}).unwrap().sub_time(Time::try_from_usecs({b}).unwrap()).usecs(), {});", a - b)));
        }
    });
    ctx.require(&r, &["negative_difference", "non_negative_difference"]);

    // interval -> time of day, and mixed comparisons
    let n_iv2 = ni + (4 * 86_400 + 1) * 3;
    let r = ctx.sweep_each("time_from_interval_and_comparisons", "interval alphabet + every second within +/-2 days x µs {0,1,999999}: Time::from(interval); comparisons against the time pool in both argument orders", n_iv2, 4096, |idx, acc| {
        let iv_us = if idx < ni { ivs[idx as usize] } else {
            let k = idx - ni;
            ((k / 3) as i64 - 2 * 86_400) * US_SEC + [0i64, 1, 999_999][(k % 3) as usize] * if (k / 3) as i64 - 2 * 86_400 < 0 { -1 } else { 1 }
        };
        let iv = match IntervalDT::try_from_usecs(iv_us) { Ok(i) => i, Err(_) => return };
        acc.states += 1;
        acc.t(1);
        acc.traces += 1;
        let want = (iv_us as i128).abs().rem_euclid(US_DAY as i128) as i64;
        let got = guard(|| Time::from(iv).usecs());
        if iv_us < 0 { acc.cls("negative_interval"); acc.nontrivial += 1; } else { acc.cls("non_negative_interval"); }
        if got != Ok(want) {
            acc.fail("C12:Time:from-IntervalDT:not-magnitude-mod-day", idx, || (format!("Time::from(IntervalDT({iv_us}))"), format!("{want}"), format!("{got:?}"),
                format!("assert_eq!(Time::from(IntervalDT::try_from_usecs({iv_us}).unwrap()).usecs(), {want});")));
        }
        for &t_us in pool.iter().chain([iv_us.clamp(0, US_DAY - 1)].iter()) {
            let t = Time::try_from_usecs(t_us).unwrap();
            acc.t(1);
            let exp = t_us.cmp(&iv_us);
            let ok = guard(|| {
                (t == iv) == (exp == Ordering::Equal) && (iv == t) == (exp == Ordering::Equal)
                    && (t != iv) == (exp != Ordering::Equal)
                    && t.partial_cmp(&iv) == Some(exp) && iv.partial_cmp(&t) == Some(exp.reverse())
                    && (t < iv) == (exp == Ordering::Less) && (t <= iv) == (exp != Ordering::Greater)
                    && (t > iv) == (exp == Ordering::Greater) && (t >= iv) == (exp != Ordering::Less)
                    && (iv < t) == (exp == Ordering::Greater) && (iv <= t) == (exp != Ordering::Less)
                    && (iv > t) == (exp == Ordering::Less) && (iv >= t) == (exp != Ordering::Greater)
            });
            if ok != Ok(true) {
                acc.fail("C12:Time-vs-IntervalDT:comparison-not-numeric", idx, || (format!("Time({t_us}) compared with IntervalDT({iv_us})"), format!("{exp:?} (numeric)"), format!("{ok:?}; partial_cmp={:?}", guard(|| t.partial_cmp(&iv))),
                    format!("assert_eq!(Time::try_from_usecs({t_us}).unwrap().partial_cmp(&IntervalDT::try_from_usecs({iv_us}).unwrap()), Some(std::cmp::Ordering::{exp:?}));")));
            }
        }
    });
    ctx.require(&r, &["negative_interval", "non_negative_interval"]);
    // hidden state: every ordered pair of operation calls on a fresh thread against the lone call (no model involved)
    let hist_calls = crate::histpairs::calls_ops(true, &|op| { use crate::optable::Op::*; op.sig().0 == 1 || matches!(op, IToTime | ISubTime) });
    crate::histpairs::pairwise(ctx, "C12", "time_of_day_arithmetic", hist_calls);
    let hist_calls_full = crate::histpairs::calls_ops(false, &|op| { use crate::optable::Op::*; op.sig().0 == 1 || matches!(op, IToTime | ISubTime) });
    crate::histpairs::pairwise_same_thread(ctx, "C12", "time_of_day_arithmetic", hist_calls_full);
}
