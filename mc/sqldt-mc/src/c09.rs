//! C09 — adding months keeps the day of month and the time of day, or fails; month ends exact.

use crate::common::*;
use explorer::serde_json::json;
use explorer::Ctx;
use refmodel::calendar::{add_months, month_len};
use sqldatetime::{Date, IntervalYM, OracleDate, Time, Timestamp};

pub fn run(ctx: &mut Ctx) {
    let w = world();
    let cal = &w.cal;
    let crit = crit_times();
    let crit_s = crit_seconds();
    let kmax: i64 = if ctx.thorough() { 400 } else { 40 };
    let seed = ctx.seed;
    ctx.rule("a case is one (value, month offset, operation) triple at a distinct sweep index; non-trivial = the offset crosses a year boundary, or the target month lacks the day, or the year leaves 1..9999");
    ctx.assume("reference: floor-division month arithmetic on 12*y+(m-1)+k, month lengths from the 28/29/30/31 + leap rule");
    ctx.bound("month_offsets", json!(format!("-{kmax}..={kmax} plus, per date, the offsets reaching 0001-01 and 9999-12 (and one beyond each), +/-12*9998, the interval limits +/-2,136,000,000 and +/-2,135,999,999, and one seed-derived offset")));

    let total = cal.total_days() as u64;
    let (crit, crit_s) = (&crit, &crit_s);
    let r = ctx.sweep("add_sub_months", "all dates x month offsets x {Date, Timestamp at 2 rotating critical times, OracleDate at 1 whole-second time} x {add, sub}", total, 1024, |range, acc| {
        let mut c = cal.at(cal.min_day + range.start as i32);
        for idx in range {
            let n = c.n;
            let date = Date::try_from_days(n).unwrap();
            let to_first = -(12 * (c.y as i64 - 1) + (c.m as i64 - 1));
            let to_last = 12 * (9999 - c.y as i64) + (12 - c.m as i64);
            let mut ks: Vec<i64> = (-kmax..=kmax).collect();
            ks.extend_from_slice(&[to_first, to_first - 1, to_first + 1, to_last, to_last + 1, to_last - 1, 12 * 9998, -12 * 9998, 2_136_000_000, -2_136_000_000, 2_135_999_999, -2_135_999_999]);
            ks.push((splitmix(seed ^ (n as u64) << 3) % 240_000) as i64 - 120_000);
            let t1 = crit[(idx as usize) % crit.len()];
            let t2 = crit[(idx as usize * 7 + 3) % crit.len()];
            let ts_times = [t1, t2];
            let od_time = crit_s[(idx as usize) % crit_s.len()];
            for &k in &ks {
                let iv = match IntervalYM::try_from_months(k as i32) {
                    Ok(iv) => iv,
                    Err(_) => {
                        acc.fail("C09:try_from_months:rejects-in-range-interval", idx, || (format!("IntervalYM::try_from_months({k})"), "Ok".into(), "Err".into(), String::new()));
                        continue;
                    }
                };
                for sub in [false, true] {
                    let keff = if sub { -k } else { k };
                    let (ny, nm) = add_months(c.y, c.m, keff);
                    let exists = (1..=9999).contains(&ny) && c.d <= month_len(ny as i32, nm);
                    let exp_day: Option<i32> = if exists { Some(cal.day_number(ny as i32, nm, c.d)) } else { None };
                    let opn = if sub { "sub_interval_ym" } else { "add_interval_ym" };
                    // classes
                    if !(1..=9999).contains(&ny) {
                        acc.cls(if ny < 1 { "year_below_range" } else { "year_above_range" });
                        acc.nontrivial += 1;
                    } else if !exists {
                        acc.cls("no_such_day");
                        acc.nontrivial += 1;
                    } else if ny as i32 != c.y {
                        acc.cls(if (ny as i32) < c.y { "year_carry_back" } else { "year_carry_forward" });
                        acc.nontrivial += 1;
                    } else {
                        acc.cls("same_year");
                    }
                    // Date
                    acc.states += 1;
                    acc.t(1);
                    acc.traces += 1;
                    let got = guard(|| if sub { date.sub_interval_ym(iv) } else { date.add_interval_ym(iv) }.map(|t| t.usecs()));
                    let want = exp_day.map(|d| d as i64 * US_DAY);
                    let ok = match (&got, want) {
                        (Ok(Ok(u)), Some(x)) => *u == x,
                        (Ok(Err(_)), None) => true,
                        _ => false,
                    };
                    if !ok {
                        let sig = match (&got, want) {
                            (Ok(Ok(_)), None) => "C09:Date:month-arith:returns-value-where-no-such-date",
                            (Ok(Ok(_)), Some(_)) => "C09:Date:month-arith:wrong-result",
                            (Ok(Err(_)), _) => "C09:Date:month-arith:fails-where-date-exists",
                            _ => "C09:Date:month-arith:panic",
                        };
                        acc.fail(sig, idx, || {
                            (format!("Date {:04}-{:02}-{:02}.{opn}({k} months)", c.y, c.m, c.d),
                             match exp_day { Some(d) => format!("midnight of day {d} ({:04}-{:02}-{:02})", ny, nm, c.d), None => format!("Err (no {:04}-{:02}-{:02})", ny, nm, c.d) },
                             format!("{got:?}"),
                             format!("let r = Date::try_from_ymd({}, {}, {}).unwrap().{opn}(IntervalYM::try_from_months({k}).unwrap());", c.y, c.m, c.d))
                        });
                    }
                    // Timestamp at two critical times
                    for &t in &ts_times {
                        acc.states += 1;
                        acc.t(1);
                    acc.traces += 1;
                        let ts = Timestamp::new(date, Time::try_from_usecs(t).unwrap());
                        let got = guard(|| if sub { ts.sub_interval_ym(iv) } else { ts.add_interval_ym(iv) }.map(|t| t.usecs()));
                        let want = exp_day.map(|d| d as i64 * US_DAY + t);
                        let ok = match (&got, want) {
                            (Ok(Ok(u)), Some(x)) => *u == x,
                            (Ok(Err(_)), None) => true,
                            _ => false,
                        };
                        if !ok {
                            acc.fail("C09:Timestamp:month-arith:mismatch", idx, || {
                                (format!("Timestamp {:04}-{:02}-{:02} {}.{opn}({k} months)", c.y, c.m, c.d, fmt_time(t)),
                                 match want { Some(x) => format!("{x} µs ({:04}-{:02}-{:02} same time)", ny, nm, c.d), None => "Err".into() },
                                 format!("{got:?}"),
                                 format!("let ts = Timestamp::new(Date::try_from_ymd({}, {}, {}).unwrap(), Time::try_from_usecs({t}).unwrap()); let r = ts.{opn}(IntervalYM::try_from_months({k}).unwrap());", c.y, c.m, c.d))
                            });
                        }
                    }
                    // OracleDate at a whole second
                    {
                        acc.states += 1;
                        acc.t(1);
                    acc.traces += 1;
                        let od = OracleDate::new(date, Time::try_from_usecs(od_time).unwrap());
                        let got = guard(|| if sub { od.sub_interval_ym(iv) } else { od.add_interval_ym(iv) }.map(|t| t.usecs()));
                        let want = exp_day.map(|d| d as i64 * US_DAY + od_time);
                        let ok = match (&got, want) {
                            (Ok(Ok(u)), Some(x)) => *u == x,
                            (Ok(Err(_)), None) => true,
                            _ => false,
                        };
                        if !ok {
                            acc.fail("C09:OracleDate:month-arith:mismatch", idx, || {
                                (format!("OracleDate {:04}-{:02}-{:02} {}.{opn}({k} months)", c.y, c.m, c.d, fmt_time(od_time)),
                                 match want { Some(x) => format!("{x} µs"), None => "Err".into() }, format!("{got:?}"), String::new())
                            });
                        }
                    }
                }
                if n == 11_016 && k == 1 {
                    acc.want_sample = true;
                    acc.sample(|| json!({"date": [c.y, c.m, c.d], "k_months": k, "add": format!("{:?}", date.add_interval_ym(iv).map(|t| t.usecs())), "sub": format!("{:?}", date.sub_interval_ym(iv).map(|t| t.usecs()))}));
                    acc.want_sample = false;
                }
            }
            c.next();
        }
    });
    ctx.require(&r, &["no_such_day", "year_below_range", "year_above_range", "year_carry_back", "year_carry_forward", "same_year"]);

    // every month offset in a wide window, on the boundary pool of dates (a slip keyed on one particular
    // offset shows on any date)
    let span: i64 = if ctx.thorough() { 120_000 } else { 12_000 };
    let pdates = crate::pools::pool_dates(w, seed);
    ctx.bound("dense_month_offsets", json!(format!("every offset in -{span}..={span} on {} pool dates", pdates.len())));
    let pd = &pdates;
    let per = (2 * span + 1) as u64;
    let r = ctx.sweep("dense_offsets_on_pool_dates", "boundary pool of dates x EVERY month offset in the window x {Date, Timestamp, OracleDate} x {add, sub}", pdates.len() as u64 * per, 8192, |range, acc| {
        for idx in range {
            let n = pd[(idx / per) as usize];
            let k = (idx % per) as i64 - span;
            let c = cal.at(n);
            let date = Date::try_from_days(n).unwrap();
            let iv = IntervalYM::try_from_months(k as i32).unwrap();
            let t = 45_296_789_012i64; // 12:34:56.789012
            let ts = Timestamp::new(date, Time::try_from_usecs(t).unwrap());
            let od = OracleDate::new(date, Time::try_from_usecs(t / US_SEC * US_SEC).unwrap());
            acc.states += 1;
            for sub in [false, true] {
                let keff = if sub { -k } else { k };
                let (ny, nm) = add_months(c.y, c.m, keff);
                let exists = (1..=9999).contains(&ny) && c.d <= month_len(ny as i32, nm);
                let day = if exists { Some(cal.day_number(ny as i32, nm, c.d) as i64) } else { None };
                acc.t(3);
                acc.traces += 1;
                if exists { acc.cls("ok_value") } else { acc.cls("error"); acc.nontrivial += 1; }
                let got = guard(|| {
                    let a = if sub { date.sub_interval_ym(iv) } else { date.add_interval_ym(iv) }.map(|x| x.usecs()).ok();
                    let b = if sub { ts.sub_interval_ym(iv) } else { ts.add_interval_ym(iv) }.map(|x| x.usecs()).ok();
                    let c2 = if sub { od.sub_interval_ym(iv) } else { od.add_interval_ym(iv) }.map(|x| x.usecs()).ok();
                    (a, b, c2)
                });
                let want = (day.map(|d| d * US_DAY), day.map(|d| d * US_DAY + t), day.map(|d| d * US_DAY + t / US_SEC * US_SEC));
                if got != Ok(want) {
                    acc.fail("C09:dense-offsets:month-arith-mismatch", idx, || (format!("{:04}-{:02}-{:02} {} {k} months through Date / Timestamp / OracleDate", c.y, c.m, c.d, if sub { "-" } else { "+" }), format!("{want:?}"), format!("{got:?}"), String::new()));
                }
            }
        }
    });
    ctx.require(&r, &["ok_value", "error"]);

    // whole centuries: every multiple of 1200 months up to the full span, on the pool dates
    let cents: Vec<i64> = (-99..=99).map(|c| c * 1200).collect();
    let cr = &cents;
    let nc = cents.len() as u64;
    let r = ctx.sweep_each("whole_century_offsets_on_pool_dates", "boundary pool of dates x every multiple of 1200 months in +/-118,800 x {Date, Timestamp, OracleDate} x {add, sub}", pdates.len() as u64 * nc, 256, |idx, acc| {
        let n = pd[(idx / nc) as usize];
        let k = cr[(idx % nc) as usize];
        let c = cal.at(n);
        let date = Date::try_from_days(n).unwrap();
        let iv = IntervalYM::try_from_months(k as i32).unwrap();
        let t = 45_296_789_012i64;
        let ts = Timestamp::new(date, Time::try_from_usecs(t).unwrap());
        let od = OracleDate::new(date, Time::try_from_usecs(t / US_SEC * US_SEC).unwrap());
        acc.states += 1;
        for sub in [false, true] {
            let keff = if sub { -k } else { k };
            let (ny, nm) = add_months(c.y, c.m, keff);
            let exists = (1..=9999).contains(&ny) && c.d <= month_len(ny as i32, nm);
            let day = if exists { Some(cal.day_number(ny as i32, nm, c.d) as i64) } else { None };
            acc.t(3);
            acc.traces += 1;
            if exists { acc.cls("ok_value") } else { acc.cls("error"); acc.nontrivial += 1; }
            let got = guard(|| (if sub { date.sub_interval_ym(iv) } else { date.add_interval_ym(iv) }.map(|x| x.usecs()).ok(), if sub { ts.sub_interval_ym(iv) } else { ts.add_interval_ym(iv) }.map(|x| x.usecs()).ok(), if sub { od.sub_interval_ym(iv) } else { od.add_interval_ym(iv) }.map(|x| x.usecs()).ok()));
            let want = (day.map(|d| d * US_DAY), day.map(|d| d * US_DAY + t), day.map(|d| d * US_DAY + t / US_SEC * US_SEC));
            if got != Ok(want) {
                acc.fail("C09:whole-centuries:month-arith-mismatch", idx, || (format!("{:04}-{:02}-{:02} {} {k} months through Date / Timestamp / OracleDate", c.y, c.m, c.d, if sub { "-" } else { "+" }), format!("{want:?}"), format!("{got:?}"), String::new()));
            }
        }
    });
    ctx.require(&r, &["ok_value", "error"]);

    // last day of month
    let r = ctx.sweep("last_day_of_month", "all dates: Date; Timestamp at 3 rotating critical times; OracleDate at 2 whole-second times", total, 4096, |range, acc| {
        let mut c = cal.at(cal.min_day + range.start as i32);
        for idx in range {
            let n = c.n;
            let date = Date::try_from_days(n).unwrap();
            let last = n + (month_len(c.y, c.m) - c.d) as i32;
            acc.states += 1;
            acc.t(1);
                    acc.traces += 1;
            match month_len(c.y, c.m) { 28 => acc.cls("len28"), 29 => acc.cls("len29"), 30 => acc.cls("len30"), _ => acc.cls("len31") }
            if c.d != month_len(c.y, c.m) { acc.nontrivial += 1; }
            let got = guard(|| date.last_day_of_month().days());
            if got != Ok(last) {
                acc.fail("C09:Date:last_day_of_month:wrong", idx, || (format!("Date {:04}-{:02}-{:02}.last_day_of_month()", c.y, c.m, c.d), format!("day {last}"), format!("{got:?}"),
                    format!("assert_eq!(Date::try_from_ymd({}, {}, {}).unwrap().last_day_of_month().days(), {last});", c.y, c.m, c.d)));
            }
            for j in 0..3usize {
                let t = crit[(idx as usize * 3 + j * 11) % crit.len()];
                acc.states += 1;
                acc.t(1);
                    acc.traces += 1;
                let ts = Timestamp::new(date, Time::try_from_usecs(t).unwrap());
                let got = guard(|| ts.last_day_of_month().usecs());
                if got != Ok(last as i64 * US_DAY + t) {
                    acc.fail("C09:Timestamp:last_day_of_month:wrong", idx, || (format!("Timestamp {:04}-{:02}-{:02} {}.last_day_of_month()", c.y, c.m, c.d, fmt_time(t)), format!("{} µs", last as i64 * US_DAY + t), format!("{got:?}"), String::new()));
                }
            }
            for j in 0..2usize {
                let t = crit_s[(idx as usize * 2 + j * 5) % crit_s.len()];
                acc.states += 1;
                acc.t(1);
                    acc.traces += 1;
                let od = OracleDate::new(date, Time::try_from_usecs(t).unwrap());
                let got = guard(|| od.last_day_of_month().usecs());
                if got != Ok(last as i64 * US_DAY + t) {
                    acc.fail("C09:OracleDate:last_day_of_month:wrong", idx, || (format!("OracleDate {:04}-{:02}-{:02} {}.last_day_of_month()", c.y, c.m, c.d, fmt_time(t)), format!("{} µs", last as i64 * US_DAY + t), format!("{got:?}"), String::new()));
                }
            }
            c.next();
        }
    });
    ctx.require(&r, &["len28", "len29", "len30", "len31"]);

    // the complete interval space on anchor dates: every one of the 4,272,000,001 year-month intervals (a wrapped
    // intermediate can bring a far-out-of-range target back into the range for a few offsets out of millions)
    let anchors: Vec<(i32, u32, u32, bool)> = if ctx.thorough() {
        vec![(2024, 6, 15, true), (1, 1, 1, true), (9999, 12, 31, true), (1969, 2, 28, true)]
    } else {
        vec![(2024, 6, 15, true), (1, 1, 1, false)]
    };
    ctx.bound("complete_interval_space", json!(format!("{} anchor dates x every month count in -2,136,000,000..=2,136,000,000", anchors.len())));
    let span: u64 = 2 * 2_136_000_000 + 1;
    for (ay, am, ad, both) in anchors {
        let an = cal.day_number(ay, am, ad);
        let date = Date::try_from_days(an).unwrap();
        let r = ctx.sweep(&format!("every_interval_on_{ay:04}_{am:02}_{ad:02}"), &format!("Date {ay:04}-{am:02}-{ad:02} + every year-month interval{}", if both { " (add and sub)" } else { " (add)" }), span, 1 << 22, |range, acc| {
            let (mut ok_n, mut err_n) = (0u64, 0u64);
            for idx in range.clone() {
                let k = idx as i64 - 2_136_000_000;
                let iv = IntervalYM::try_from_months(k as i32).unwrap();
                for sub in [false, true] {
                    if sub && !both { continue; }
                    let keff = if sub { -k } else { k };
                    let (ny, nm) = add_months(ay, am, keff);
                    let exp: Option<i64> = if (1..=9999).contains(&ny) && ad <= month_len(ny as i32, nm) { Some(cal.day_number(ny as i32, nm, ad) as i64 * US_DAY) } else { None };
                    let got = guard(|| if sub { date.sub_interval_ym(iv) } else { date.add_interval_ym(iv) }.map(|t| t.usecs()).ok());
                    if got == Ok(exp) { if exp.is_some() { ok_n += 1 } else { err_n += 1 } } else {
                        let kind = match (&got, exp) { (Err(()), _) => "panic", (Ok(Some(_)), None) => "returns-value-where-no-such-date", (Ok(None), Some(_)) => "fails-where-date-exists", _ => "mismatch" };
                        acc.fail(&format!("C09:Date:month-arith:{kind}"), idx, || (format!("Date {ay:04}-{am:02}-{ad:02} {} IntervalYM({k} months)", if sub { "-" } else { "+" }), format!("{exp:?} (µs of the midnight timestamp)"), format!("{got:?}"),
                            format!("let r = Date::try_from_ymd({ay}, {am}, {ad}).unwrap().{}(IntervalYM::try_from_months({k}).unwrap());", if sub { "sub_interval_ym" } else { "add_interval_ym" })));
                    }
                }
            }
            let n = range.end - range.start;
            acc.states += n;
            acc.t(n * if both { 2 } else { 1 });
            acc.traces += ok_n + err_n;
            acc.nontrivial += ok_n;
            if ok_n > 0 { acc.cls("target_exists"); }
            if err_n > 0 { acc.cls("target_outside_range_or_no_such_day"); }
        });
        ctx.require(&r, &["target_exists", "target_outside_range_or_no_such_day"]);
    }

    // hidden state behind last_day_of_month: alternation of every date with two February anchors
    crate::history::alternating_with_anchor(ctx, "C09", crate::history::Family::Accessors);
}
