//! sqldt-mc: bounded exhaustive exploration of the sqldatetime crate against a reference
//! model.  Usage:  sqldt-mc <C01..C19> <quick|thorough> [--child]   |   sqldt-mc replay <file>

mod common;
mod c01;
mod c07;
mod c08;
mod fref;
mod history;
mod histpairs;
mod c09;
mod c10;
mod c11;
mod c12;
mod c13;
mod c14;
mod c15;
mod c16;
mod c17;
mod c18;
mod c19;
mod probe;
mod c02;
mod c03;
mod c04;
mod c05;
mod c06;
mod spell;
mod closure;
mod optable;
mod pools;
mod units;
mod xcheck;

use explorer::{Ctx, ReplayTarget, Tier};
use std::path::PathBuf;

fn dispatch(id: &str, ctx: &mut Ctx) -> bool {
    match id {
        "C01" => c01::run(ctx),
        "C02" => c02::run(ctx),
        "C03" => c03::run(ctx),
        "C04" => c04::run(ctx),
        "C05" => c05::run(ctx),
        "C06" => c06::run(ctx),
        "C07" => c07::run(ctx),
        "C08" => c08::run(ctx),
        "C09" => c09::run(ctx),
        "C10" => c10::run(ctx),
        "C11" => c11::run(ctx),
        "C12" => c12::run(ctx),
        "C13" => c13::run(ctx),
        "C14" => c14::run(ctx),
        "C15" => c15::run(ctx),
        "C16" => c16::run(ctx),
        "C17" => c17::run(ctx),
        "C18" => c18::run(ctx),
        "C19" => c19::run(ctx),
        _ => return false,
    }
    true
}

fn main() {
    let args: Vec<String> = std::env::args().collect();
    let root = PathBuf::from(std::env::var("VERIF_ROOT").unwrap_or_else(|_| "/verif".to_string()));
    let seed: u64 = std::env::var("VERIF_SEED").ok().and_then(|s| s.parse().ok()).unwrap_or(0);
    let profile = std::env::var("VERIF_PROFILE").unwrap_or_else(|_| "fast".to_string());
    // panics of the crate under test are caught and classified; keep stderr quiet
    if std::env::var("VERIF_SHOW_PANICS").is_err() {
        std::panic::set_hook(Box::new(|_| {}));
    }
    if args.len() >= 4 && args[1] == "first-call" {
        // child of history::first_call_in_fresh_process: these are the first calls into the crate
        if let (Some(f), Ok(d)) = (history::fam_parse(&args[2]), args[3].parse::<i32>()) {
            history::child_first_call(f, d);
            return;
        }
        std::process::exit(2);
    }
    if args.len() >= 3 && args[1] == "replay" {
        let body = match std::fs::read_to_string(&args[2]) {
            Ok(b) => b,
            Err(e) => {
                eprintln!("cannot read {}: {e}", args[2]);
                std::process::exit(2);
            }
        };
        let v: explorer::serde_json::Value = match explorer::serde_json::from_str(&body) {
            Ok(v) => v,
            Err(e) => {
                eprintln!("cannot parse {}: {e}", args[2]);
                std::process::exit(2);
            }
        };
        let id = v["property"].as_str().unwrap_or("").to_string();
        let tier = if v["tier"].as_str() == Some("thorough") { Tier::Thorough } else { Tier::Quick };
        let seed = v["seed"].as_u64().unwrap_or(0);
        let mut ctx = Ctx::new(&id, tier, seed, root, &profile);
        ctx.replay = Some(ReplayTarget {
            sub: v["sub"].as_str().unwrap_or("").to_string(),
            ord: v["ord"].as_u64().unwrap_or(0),
            state: v["state"].as_str().map(|s| s.to_string()),
        });
        if !dispatch(&id, &mut ctx) {
            eprintln!("unknown property {id}");
            std::process::exit(2);
        }
        std::process::exit(ctx.finish());
    }
    if args.len() < 3 {
        eprintln!("usage: sqldt-mc <ID> <quick|thorough> [--child] | sqldt-mc replay <file>");
        std::process::exit(2);
    }
    let id = args[1].clone();
    let tier = match args[2].as_str() {
        "quick" => Tier::Quick,
        "thorough" => Tier::Thorough,
        other => {
            eprintln!("unknown tier {other}");
            std::process::exit(2);
        }
    };
    let mut ctx = Ctx::new(&id, tier, seed, root, &profile);
    ctx.child = args.iter().any(|a| a == "--child");
    if !dispatch(&id, &mut ctx) {
        eprintln!("unknown property {id}");
        std::process::exit(2);
    }
    std::process::exit(ctx.finish());
}
