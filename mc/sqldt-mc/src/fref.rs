//! Reference verdicts for the fractional-day operations (C08 `Timestamp::add_days`, C16
//! `OracleDate::add_days`): exact rational product `days x 86,400,000,000`, the admissible
//! rounding band, nearest-microsecond / nearest-second selection and the range decision.

use crate::common::*;
use refmodel::exact::{decode, dyadic_fits_f64, Band, Big, Rat};
use refmodel::ranges as rg;
use sqldatetime::Error;

/// The admissible set of "added microseconds" R for a fractional day count, as a band whose
/// nearest integers are admissible.  `None` when `days` is NaN or infinite (any error is then
/// the only admissible outcome).
pub fn day_offset_band(days: f64) -> Option<(Band, bool)> {
    let parts = decode(days)?;
    let d = Rat::from_parts(parts);
    let p = d.mul(&Rat::from_int(86_400_000_000));
    // exactly representable product: then no double rounding takes place at all
    let exact = dyadic_fits_f64(&Big::from_u128(parts.m as u128).mul(&Big::from_u128(10_546_875)));
    let band = if exact { Band { lo: p.clone(), hi: p } } else { Band::relative(&p, 52) };
    Some((band, exact))
}

/// Timestamp::add_days: result must be self + R with R an admissible nearest integer, Ok iff
/// that sum is a valid timestamp.
pub fn judge_ts_add_days(self_us: i64, days: f64, got: &Result<i64, Error>) -> Result<&'static str, String> {
    let (band, exact) = match day_offset_band(days) {
        Some(b) => b,
        None => return match got { Err(_) => Ok("nan_or_infinite_days"), Ok(_) => Err("Err (NaN / infinite day count)".into()) },
    };
    let s = self_us as i128;
    let ok_possible = band.admits_nearest_le(rg::TS_MAX - s) && band.admits_nearest_ge(rg::TS_MIN - s);
    let err_possible = band.admits_nearest_ge(rg::TS_MAX - s + 1) || band.admits_nearest_le(rg::TS_MIN - s - 1);
    match got {
        Ok(v) => {
            let r = *v as i128 - s;
            if !rg::ts_ok(*v as i128) {
                return Err("a timestamp inside the documented range".into());
            }
            if !band.admits_nearest(r) {
                return Err(format!("self + (days x 86,400,000,000 rounded to the nearest microsecond{})", if exact { ", product exactly representable" } else { ", within relative 2^-52" }));
            }
            Ok(if exact { "ok_exact_product" } else { "ok_within_band" })
        }
        Err(_) => {
            if err_possible { Ok("range_error") } else { let _ = ok_possible; Err("Ok(value): the exact sum is inside the timestamp range".into()) }
        }
    }
}

/// OracleDate::add_days: nearest second of the exact sum (either neighbour on an exact tie).  An error
/// is admissible when the un-rounded sum is not a valid timestamp or the rounded second is not a valid
/// Oracle-style date; a value is admissible whenever it is a valid Oracle-style date nearest to an
/// admissible sum.
pub fn judge_od_add_days(self_us: i64, days: f64, got: &Result<i64, Error>) -> Result<&'static str, String> {
    let (band, exact) = match day_offset_band(days) {
        Some(b) => b,
        None => return match got { Err(_) => Ok("nan_or_infinite_days"), Ok(_) => Err("Err (NaN / infinite day count)".into()) },
    };
    let s = self_us as i128;
    let half = (US_SEC / 2) as i128;
    match got {
        Ok(v) => {
            let v = *v as i128;
            if !rg::od_ok(v) {
                return Err("a whole second between 0001-01-01 00:00:00 and 9999-12-31 23:59:59".into());
            }
            // exists admissible R with |s + R - v| <= half a second (the un-rounded sum itself may lie up to
            // half a second outside the range: "rounds to the nearest second" does not say that it must be
            // representable as a timestamp first)
            let lo = v - half - s;
            let hi = v + half - s;
            if lo <= hi && band.admits_nearest_le(hi) && band.admits_nearest_ge(lo) {
                Ok(if exact { "ok_exact_product" } else { "ok_within_band" })
            } else {
                Err("the timestamp result rounded to the nearest second".into())
            }
        }
        Err(_) => {
            // admissible iff some admissible R leaves the timestamp range or rounds past the last second
            let past = band.admits_nearest_ge((rg::OD_MAX + half - s).min(rg::TS_MAX - s + 1));
            let before = band.admits_nearest_le(rg::TS_MIN - s - 1);
            if past || before { Ok("range_error") } else { Err("Ok(value): the rounded result is a valid Oracle-style date".into()) }
        }
    }
}
