//! Engine self-check: the C02 closure executed under stateright's BFS checker.  The same op
//! table drives `next_state`; the `always` property is the same range invariant.  The number of
//! unique states stateright visits within a depth must equal the hand-rolled explorer's
//! cumulative state count at the corresponding level.  This validates the engine (dedup,
//! frontier handling), not the library; verdicts never depend on it.

use crate::optable::*;
use stateright::{Checker, Model, Property};

pub struct Closure {
    pub table: Table,
    pub seeds: Vec<Val>,
}

impl Model for Closure {
    type State = Val;
    type Action = u32;

    fn init_states(&self) -> Vec<Self::State> {
        self.seeds.clone()
    }

    fn actions(&self, state: &Self::State, actions: &mut Vec<Self::Action>) {
        actions.extend(self.table.by_tag[state.tag() as usize].iter().copied());
    }

    fn next_state(&self, last: &Self::State, action: Self::Action) -> Option<Self::State> {
        let (op, arg) = self.table.all[action as usize];
        match step_impl(*last, op, arg) {
            Out::V(v) if v.in_range() => Some(v),
            // out-of-range values are reported by the invariant below through a sentinel-free route:
            // they are simply not states of the closure (the hand-rolled engine does the same and
            // reports them as violations of C02 itself)
            _ => None,
        }
    }

    fn properties(&self) -> Vec<Property<Self>> {
        vec![Property::<Self>::always("every state is inside its documented range", |_, s| s.in_range())]
    }
}

/// Unique states visited by stateright within `depth` (its depth counts the initial states as 1).
pub fn unique_states(seeds: &[Val], ops: &Operands, depth: usize) -> (usize, bool) {
    let model = Closure { table: ops.table(), seeds: seeds.to_vec() };
    let checker = model.checker().threads(std::thread::available_parallelism().map(|n| n.get()).unwrap_or(4)).target_max_depth(depth).spawn_bfs().join();
    (checker.unique_state_count(), checker.discoveries().is_empty())
}
