//! C11 — rounding picks one of the two adjacent unit boundaries by the documented rule.

use crate::common::*;
use crate::units::*;
use explorer::serde_json::json;
use explorer::{Acc, Ctx};
use refmodel::calendar::Cal;
use refmodel::ranges::{OD_MAX, TS_MAX};
use sqldatetime::{Date, OracleDate, Time, Timestamp};

const DATE_MAX_US: i128 = refmodel::ranges::DATE_MAX * 86_400_000_000;

/// Returns the observed value when it is acceptable (for the monotonicity chain).
#[inline]
fn check_round(acc: &mut Acc, idx: u64, ty: &'static str, u: usize, c: &Cal, t: i64, dr: &DayRef, want: Exp, got: Result<Result<i64, sqldatetime::Error>, ()>) -> Option<i64> {
    acc.t(1);
    let inst = c.n as i128 * US_DAY as i128 + t as i128;
    let ok = match (&got, want) {
        (Ok(Ok(v)), Exp::Val(x)) => *v as i128 == x,
        (Ok(Err(_)), Exp::Fail) => true,
        (Ok(Ok(v)), Exp::Either(lo, hi, _)) => Some(*v as i128) == lo || *v as i128 == hi,
        (Ok(Err(_)), Exp::Either(_, _, fail_ok)) => fail_ok,
        _ => false,
    };
    if ok {
        match (want, &got) {
            (Exp::Fail, _) => { acc.cls("fails_past_range"); acc.nontrivial += 1; }
            (Exp::Either(..), _) => { acc.cls("shortened_week"); acc.nontrivial += 1; }
            (Exp::Val(x), _) if x == inst => acc.cls("on_boundary_unchanged"),
            (Exp::Val(x), _) if x > inst => { acc.cls("rounded_up"); acc.nontrivial += 1; }
            _ => { acc.cls("rounded_down"); acc.nontrivial += 1; }
        }
        return match got { Ok(Ok(v)) => Some(v), _ => None };
    }
    // signature: distinguish the known round_century defect class precisely
    let trunc_us = if u < 9 { dr.tr[u].map(|b| b as i128 * US_DAY as i128) } else { None };
    let sig = match (&got, want) {
        (Err(()), _) => format!("C11:{ty}:{}:panic", UNIT_NAMES[u]),
        (Ok(Ok(v)), Exp::Val(x)) if u == 0 && c.y % 100 == 0 && Some(*v as i128) == trunc_us && x > inst =>
            "C11:round_century:year-multiple-of-100:returns-truncation-instead-of-next-century".to_string(),
        (Ok(Ok(v)), Exp::Val(x)) if x == inst && *v as i128 != inst => format!("C11:{ty}:{}:boundary-input-moved", UNIT_NAMES[u]),
        (Ok(Ok(_)), Exp::Val(_)) => format!("C11:{ty}:{}:wrong-side-of-midpoint-or-wrong-boundary", UNIT_NAMES[u]),
        (Ok(Ok(_)), Exp::Either(..)) => format!("C11:{ty}:{}:result-is-neither-adjacent-boundary", UNIT_NAMES[u]),
        (Ok(Ok(_)), Exp::Fail) => format!("C11:{ty}:{}:returns-value-where-chosen-boundary-out-of-range", UNIT_NAMES[u]),
        (Ok(Err(_)), _) => format!("C11:{ty}:{}:fails-where-chosen-boundary-in-range", UNIT_NAMES[u]),
    };
    acc.fail(&sig, idx, || {
        (format!("{ty} {:04}-{:02}-{:02} {} .round_{}()", c.y, c.m, c.d, fmt_time(t), UNIT_NAMES[u]),
         match want {
             Exp::Val(x) => format!("{} (day {} + {} µs)", x, x.div_euclid(US_DAY as i128), x.rem_euclid(US_DAY as i128)),
             Exp::Fail => "Err (chosen boundary outside the supported range)".into(),
             Exp::Either(lo, hi, f) => format!("one of {:?} / {} (fail admissible: {f})", lo, hi),
         },
         format!("{got:?}"),
         format!("// {ty}: value at day {} time {} µs; call round_{}()", c.n, t, UNIT_NAMES[u]))
    });
    None
}

pub fn run(ctx: &mut Ctx) {
    let w = world();
    let cal = &w.cal;
    let crit = crit_times();
    let crit_s = crit_seconds();
    let total = cal.total_days() as u64;
    ctx.rule("a case is one (value, unit, type) triple at a distinct sweep index; non-trivial = the value is not already on a boundary (a midpoint decision, a shortened week, or a range exit is exercised)");
    ctx.assume("reference: T = latest boundary <= input, N = next boundary (independent per-unit predicates); up iff input >= documented midpoint; shortened weeks (last block of a year/month) only require result in {T, N}, monotonicity and cross-type agreement");

    let r = ctx.sweep("date_all_units", "all dates x 12 units on Date (with monotonicity along the sweep)", total, 2048, |range, acc| {
        let mut c = cal.at(cal.min_day + range.start as i32);
        let mut prev: [Option<i64>; 12] = [None; 12];
        for idx in range {
            let dr = day_ref(w, c.n);
            let date = Date::try_from_days(c.n).unwrap();
            for u in 0..12 {
                acc.states += 1;
                acc.traces += 1;
                let want = if u >= 9 { Exp::Val(c.n as i128 * US_DAY as i128) } else { ref_round(w, &dr, u, &c, 0, DATE_MAX_US) };
                let got = guard(|| round_date(u, date).map(|d| d.days() as i64 * US_DAY));
                if let Some(v) = check_round(acc, idx, "Date", u, &c, 0, &dr, want, got) {
                    if u != 2 {
                        if let Some(p) = prev[u] {
                            if v < p {
                                acc.fail(&format!("C11:Date:{}:not-monotone", UNIT_NAMES[u]), idx, || (format!("round_{} at day {} then day {}", UNIT_NAMES[u], c.n - 1, c.n), "non-decreasing results".into(), format!("{p} then {v}"), String::new()));
                            }
                        }
                        prev[u] = Some(v);
                    }
                } else {
                    prev[u] = None;
                }
            }
            if c.n == 18_822 {
                acc.want_sample = true;
                acc.sample(|| json!({"date": [c.y, c.m, c.d], "unit": "month", "impl": format!("{:?}", round_date(4, date).map(|d| d.extract())), "reference": format!("{:?}", ref_round(w, &dr, 4, &c, 0, DATE_MAX_US))}));
                acc.want_sample = false;
            }
            c.next();
        }
    });
    ctx.require(&r, &["fails_past_range", "shortened_week", "on_boundary_unchanged", "rounded_up", "rounded_down"]);

    let (crit, crit_s) = (&crit, &crit_s);
    let r = ctx.sweep("timestamp_oracle_all_units", "all dates x critical times x 12 units on Timestamp; x whole-second critical times on OracleDate; Date vs Timestamp-at-midnight agreement on week units", total, 512, |range, acc| {
        let mut c = cal.at(cal.min_day + range.start as i32);
        let mut prev: [Option<i64>; 12] = [None; 12];
        let mut prev_od: [Option<i64>; 12] = [None; 12];
        for idx in range {
            let dr = day_ref(w, c.n);
            let date = Date::try_from_days(c.n).unwrap();
            for &t in crit.iter() {
                let ts = Timestamp::new(date, Time::try_from_usecs(t).unwrap());
                for u in 0..12 {
                    acc.states += 1;
                    acc.traces += 1;
                    let want = ref_round(w, &dr, u, &c, t, TS_MAX);
                    let got = guard(|| round_ts(u, ts).map(|x| x.usecs()));
                    let r = check_round(acc, idx, "Timestamp", u, &c, t, &dr, want, got);
                    if let Some(v) = r {
                        if u != 2 {
                            if let Some(p) = prev[u] {
                                if v < p {
                                    acc.fail(&format!("C11:Timestamp:{}:not-monotone", UNIT_NAMES[u]), idx, || (format!("round_{} near day {} time {}", UNIT_NAMES[u], c.n, fmt_time(t)), "non-decreasing results".into(), format!("{p} then {v}"), String::new()));
                                }
                            }
                            prev[u] = Some(v);
                        }
                    } else {
                        prev[u] = None;
                    }
                    if t == 0 && (5..9).contains(&u) {
                        // shortened weeks are pinned by agreement between the types
                        let dres = guard(|| round_date(u, date).map(|d| d.days() as i64 * US_DAY).ok());
                        acc.t(1);
                        if dres != Ok(r) && r.is_some() {
                            acc.fail(&format!("C11:Date-vs-Timestamp:{}:disagree-at-midnight", UNIT_NAMES[u]), idx, || (format!("round_{} of {:04}-{:02}-{:02} as Date and as Timestamp at 00:00", UNIT_NAMES[u], c.y, c.m, c.d), format!("{r:?}"), format!("{dres:?}"), String::new()));
                        }
                    }
                }
            }
            for &t in crit_s.iter() {
                let od = OracleDate::new(date, Time::try_from_usecs(t).unwrap());
                for u in 0..12 {
                    acc.states += 1;
                    acc.traces += 1;
                    let want = ref_round(w, &dr, u, &c, t, OD_MAX);
                    let got = guard(|| round_od(u, od).map(|x| x.usecs()));
                    if let Some(v) = check_round(acc, idx, "OracleDate", u, &c, t, &dr, want, got) {
                        if u != 2 {
                            if let Some(p) = prev_od[u] {
                                if v < p {
                                    acc.fail(&format!("C11:OracleDate:{}:not-monotone", UNIT_NAMES[u]), idx, || (format!("round_{} near day {}", UNIT_NAMES[u], c.n), "non-decreasing".into(), format!("{p} then {v}"), String::new()));
                                }
                            }
                            prev_od[u] = Some(v);
                        }
                    } else {
                        prev_od[u] = None;
                    }
                }
            }
            c.next();
        }
    });
    ctx.require(&r, &["fails_past_range", "shortened_week", "on_boundary_unchanged", "rounded_up", "rounded_down"]);

    let days = selected_days(w);
    ctx.bound("every_second_days", json!(days.len()));
    let days = &days;
    ctx.sweep("every_second_of_selected_days", "every second (x µs {0, 1, 123456, 499999, 500000, 654321, 999999}) of the selected days x 12 units on Timestamp, whole seconds on OracleDate", days.len() as u64 * 86_400, 4096, |range, acc| {
        for idx in range {
            let n = days[(idx / 86_400) as usize];
            let s = (idx % 86_400) as i64;
            let c = cal.at(n);
            let dr = day_ref(w, n);
            let date = Date::try_from_days(n).unwrap();
            for us in [0i64, 1, 123_456, 499_999, 500_000, 654_321, 999_999] {
                let t = s * US_SEC + us;
                let ts = Timestamp::new(date, Time::try_from_usecs(t).unwrap());
                for u in 0..12 {
                    acc.states += 1;
                    acc.traces += 1;
                    let got = guard(|| round_ts(u, ts).map(|x| x.usecs()));
                    check_round(acc, idx, "Timestamp", u, &c, t, &dr, ref_round(w, &dr, u, &c, t, TS_MAX), got);
                }
            }
            let t = s * US_SEC;
            let od = OracleDate::new(date, Time::try_from_usecs(t).unwrap());
            for u in 0..12 {
                acc.states += 1;
                acc.traces += 1;
                let got = guard(|| round_od(u, od).map(|x| x.usecs()));
                check_round(acc, idx, "OracleDate", u, &c, t, &dr, ref_round(w, &dr, u, &c, t, OD_MAX), got);
            }
        }
    });

    // every microsecond of one-minute windows around decision points (a time-of-day dependent rule is periodic in
    // the minute / hour / day, so one complete period at µs resolution is a complete sub-space)
    for (k, (label, start)) in micro_windows(w).into_iter().enumerate() {
        let r = ctx.sweep(&format!("every_microsecond_window_{k}"), &format!("every microsecond of {label} x 12 units on Timestamp"), 60_000_000, 1 << 16, |range, acc| {
            let mut cur: Option<(Cal, DayRef, Date)> = None;
            for idx in range {
                let inst = start + idx as i64;
                let (n, t) = (inst.div_euclid(US_DAY) as i32, inst.rem_euclid(US_DAY));
                if cur.as_ref().map(|x| x.0.n) != Some(n) {
                    cur = Some((cal.at(n), day_ref(w, n), Date::try_from_days(n).unwrap()));
                }
                let (c, dr, date) = cur.as_ref().unwrap();
                let ts = Timestamp::new(*date, Time::try_from_usecs(t).unwrap());
                for u in 0..12 {
                    acc.states += 1;
                    acc.traces += 1;
                    let got = guard(|| round_ts(u, ts).map(|x| x.usecs()));
                    check_round(acc, idx, "Timestamp", u, c, t, dr, ref_round(w, dr, u, c, t, TS_MAX), got);
                }
            }
        });
        ctx.require(&r, &["rounded_up", "rounded_down"]);
    }
    if ctx.thorough() {
        let (label, start) = micro_hour_window(w);
        ctx.sweep("every_microsecond_of_an_hour", &format!("every microsecond of {label} x units day / hour / minute on Timestamp"), 3_600_000_000, 1 << 20, |range, acc| {
            let mut cur: Option<(Cal, DayRef, Date)> = None;
            for idx in range {
                let inst = start + idx as i64;
                let (n, t) = (inst.div_euclid(US_DAY) as i32, inst.rem_euclid(US_DAY));
                if cur.as_ref().map(|x| x.0.n) != Some(n) {
                    cur = Some((cal.at(n), day_ref(w, n), Date::try_from_days(n).unwrap()));
                }
                let (c, dr, date) = cur.as_ref().unwrap();
                let ts = Timestamp::new(*date, Time::try_from_usecs(t).unwrap());
                for u in 9..12 {
                    acc.states += 1;
                    acc.traces += 1;
                    let got = guard(|| round_ts(u, ts).map(|x| x.usecs()));
                    check_round(acc, idx, "Timestamp", u, c, t, dr, ref_round(w, dr, u, c, t, TS_MAX), got);
                }
            }
        });
        // the complete value space of the Oracle-style date over one full 400-year cycle
        let (d0, d1) = cycle_days(w);
        ctx.bound("full_cycle", json!("1601-01-01 ..= 2000-12-31 (146,097 days) x every second of the day"));
        ctx.sweep("oracle_date_full_cycle_every_second", "every OracleDate value (whole second) of one 400-year Gregorian cycle x units day / hour / minute", (d1 - d0 + 1) as u64, 8, |range, acc| {
            for idx in range {
                let n = d0 + idx as i32;
                let c = cal.at(n);
                let dr = day_ref(w, n);
                let date = Date::try_from_days(n).unwrap();
                for s in 0..86_400i64 {
                    let t = s * US_SEC;
                    let od = OracleDate::new(date, Time::try_from_usecs(t).unwrap());
                    for u in 9..12 {
                        acc.states += 1;
                        acc.traces += 1;
                        let got = guard(|| round_od(u, od).map(|x| x.usecs()));
                        check_round(acc, idx, "OracleDate", u, &c, t, &dr, ref_round(w, &dr, u, &c, t, OD_MAX), got);
                    }
                }
            }
        });
    }

    // hidden per-thread state: two-step histories from the initial state
    crate::history::two_step_histories(ctx, "C11", crate::history::Family::Round);
    crate::history::alternating_with_anchor(ctx, "C11", crate::history::Family::Round);
    crate::history::first_call_in_fresh_process(ctx, "C11", crate::history::Family::Round);
}
