//! The op table: every safe public constructor / conversion / arithmetic / trunc / round /
//! last-day / format→parse operation of the six types as a transition `state × operand → outcome`
//! on the real code, together with its exact reference step where one is defined.
//!
//! Used by the BFS closures of C02 (range invariant), C03 (no panic, both profiles), C08
//! (linear arithmetic in lock step) and C16 (Oracle-style date invariant).

use crate::common::*;
use crate::units::*;
use explorer::bfs::BfsState;
use refmodel::calendar::{add_months, month_len};
use refmodel::ranges as rg;
use sqldatetime::{Date, DateTime, Error, IntervalDT, IntervalYM, OracleDate, Time, Timestamp};

#[derive(Copy, Clone, Eq, PartialEq, Hash, Ord, PartialOrd, Debug)]
pub enum Val {
    Date(i32),
    Time(i64),
    Ts(i64),
    Ym(i32),
    Dt(i64),
    Od(i64),
}

impl Val {
    pub fn tag(&self) -> u8 {
        match self {
            Val::Date(_) => 0,
            Val::Time(_) => 1,
            Val::Ts(_) => 2,
            Val::Ym(_) => 3,
            Val::Dt(_) => 4,
            Val::Od(_) => 5,
        }
    }
    pub fn raw(&self) -> i64 {
        match *self {
            Val::Date(v) => v as i64,
            Val::Time(v) => v,
            Val::Ts(v) => v,
            Val::Ym(v) => v as i64,
            Val::Dt(v) => v,
            Val::Od(v) => v,
        }
    }
    pub fn from_tag(tag: u8, raw: i64) -> Option<Val> {
        Some(match tag {
            0 => Val::Date(raw as i32),
            1 => Val::Time(raw),
            2 => Val::Ts(raw),
            3 => Val::Ym(raw as i32),
            4 => Val::Dt(raw),
            5 => Val::Od(raw),
            _ => return None,
        })
    }
    /// Is the value inside the documented range of its type (whole second for the Oracle date)?
    pub fn in_range(&self) -> bool {
        match *self {
            Val::Date(v) => rg::date_ok(v as i128),
            Val::Time(v) => rg::time_ok(v as i128),
            Val::Ts(v) => rg::ts_ok(v as i128),
            Val::Ym(v) => rg::ym_ok(v as i128),
            Val::Dt(v) => rg::dt_ok(v as i128),
            Val::Od(v) => rg::od_ok(v as i128),
        }
    }
    pub fn type_name(&self) -> &'static str {
        ["Date", "Time", "Timestamp", "IntervalYM", "IntervalDT", "OracleDate"][self.tag() as usize]
    }
}

impl BfsState for Val {
    fn encode(&self) -> String {
        format!("{}:{}", self.tag(), self.raw())
    }
    fn decode(s: &str) -> Option<Self> {
        let (a, b) = s.split_once(':')?;
        Val::from_tag(a.parse().ok()?, b.parse().ok()?)
    }
    fn show(&self) -> String {
        match *self {
            Val::Date(n) => {
                if rg::date_ok(n as i128) {
                    let c = world().cal.at(n);
                    format!("Date({:04}-{:02}-{:02} = day {n})", c.y, c.m, c.d)
                } else {
                    format!("Date(day {n} OUT OF RANGE)")
                }
            }
            Val::Time(t) => format!("Time({} = {t} µs)", if (0..US_DAY).contains(&t) { fmt_time(t) } else { "OUT OF RANGE".into() }),
            Val::Ts(u) | Val::Od(u) => {
                let name = if matches!(self, Val::Ts(_)) { "Timestamp" } else { "OracleDate" };
                if rg::ts_ok(u as i128) {
                    let c = world().cal.at(u.div_euclid(US_DAY) as i32);
                    format!("{name}({:04}-{:02}-{:02} {} = {u} µs)", c.y, c.m, c.d, fmt_time(u.rem_euclid(US_DAY)))
                } else {
                    format!("{name}({u} µs OUT OF RANGE)")
                }
            }
            Val::Ym(m) => format!("IntervalYM({m} months)"),
            Val::Dt(u) => format!("IntervalDT({u} µs)"),
        }
    }
}

// ---- conversions between Val and the real types (values are always built through the safe,
// ---- checked constructors; a state that cannot be built is reported by the caller)

pub fn mk_date(n: i32) -> Date {
    Date::try_from_days(n).expect("state: in-range date")
}
pub fn mk_time(t: i64) -> Time {
    Time::try_from_usecs(t).expect("state: in-range time")
}
pub fn mk_ts(u: i64) -> Timestamp {
    Timestamp::try_from_usecs(u).expect("state: in-range timestamp")
}
pub fn mk_ym(m: i32) -> IntervalYM {
    IntervalYM::try_from_months(m).expect("state: in-range interval")
}
pub fn mk_dt(u: i64) -> IntervalDT {
    IntervalDT::try_from_usecs(u).expect("state: in-range interval")
}
pub fn mk_od(u: i64) -> OracleDate {
    OracleDate::try_from_usecs(u).expect("state: in-range whole-second oracle date")
}

#[derive(Copy, Clone, Debug, PartialEq)]
pub enum Arg {
    None,
    I32(i32),
    F64(f64),
    V(Val),
    Unit(usize),
}

#[derive(Clone, Debug, PartialEq)]
pub enum Out {
    V(Val),
    I32(i32),
    F64(f64),
    Err(&'static str),
    Panic,
}

/// What the reference says about a transition.
#[derive(Clone, Copy, Debug, PartialEq)]
pub enum RefOut {
    /// exact result as a raw count of type `tag`: the call must succeed with exactly this value
    /// iff it lies inside that type's range, and must fail otherwise
    Exact(u8, i128),
    /// the call must fail
    MustFail,
    /// either of two values (shortened-week rounding); failing is admissible iff flagged
    Either(u8, Option<i128>, i128, bool),
    /// exact scalar result
    I32(i128),
    /// no exact reference here (floating-point operands: C08 / C14 / C16 have their own bands);
    /// only invariants on the returned value are asserted
    Unspec,
}

#[derive(Copy, Clone, Debug, PartialEq, Eq, Hash)]
pub enum Op {
    // Date
    DAddDays, DSubDays, DAddYm, DSubYm, DAddDt, DSubDt, DAddTime, DSubTime, DSubDate, DSubTs, DAndTime, DLastDay, DTrunc, DRound, DToTs, DRebuild, DFmtParse,
    // Time
    TSubTime, TAddDt, TSubDt, TMul, TDiv, TToDt, TRebuild, TFmtParse,
    // Timestamp
    SAddDt, SSubDt, SAddYm, SSubYm, SAddTime, SSubTime, SAddDays, SSubDays, SSubDate, SSubTs, SLastDay, STrunc, SRound, SDate, STime, SToOd, SOracleSubDate,
    SOracleAddDays, SOracleSubDays, SRebuild, SFmtParse,
    // IntervalYM
    YAdd, YSub, YMul, YDiv, YNeg, YRebuild, YFmtParse,
    // IntervalDT
    IAdd, ISub, IMul, IDiv, INeg, ISubTime, IToTime, IRebuild, IFmtParse,
    // OracleDate
    OAddDt, OSubDt, OAddYm, OSubYm, OAddTime, OSubTime, OAddDays, OSubDays, OSubDate, OSubTs, OLastDay, OTrunc, ORound, OToTs, ODate, OTime, ORebuild, OFmtParse,
}

pub const ALL_OPS: &[Op] = &[
    Op::DAddDays, Op::DSubDays, Op::DAddYm, Op::DSubYm, Op::DAddDt, Op::DSubDt, Op::DAddTime, Op::DSubTime, Op::DSubDate, Op::DSubTs, Op::DAndTime, Op::DLastDay,
    Op::DTrunc, Op::DRound, Op::DToTs, Op::DRebuild, Op::DFmtParse, Op::TSubTime, Op::TAddDt, Op::TSubDt, Op::TMul, Op::TDiv, Op::TToDt, Op::TRebuild, Op::TFmtParse,
    Op::SAddDt, Op::SSubDt, Op::SAddYm, Op::SSubYm, Op::SAddTime, Op::SSubTime, Op::SAddDays, Op::SSubDays, Op::SSubDate, Op::SSubTs, Op::SLastDay, Op::STrunc, Op::SRound,
    Op::SDate, Op::STime, Op::SToOd, Op::SOracleSubDate, Op::SOracleAddDays, Op::SOracleSubDays, Op::SRebuild, Op::SFmtParse, Op::YAdd, Op::YSub, Op::YMul, Op::YDiv,
    Op::YNeg, Op::YRebuild, Op::YFmtParse, Op::IAdd, Op::ISub, Op::IMul, Op::IDiv, Op::INeg, Op::ISubTime, Op::IToTime, Op::IRebuild, Op::IFmtParse, Op::OAddDt, Op::OSubDt,
    Op::OAddYm, Op::OSubYm, Op::OAddTime, Op::OSubTime, Op::OAddDays, Op::OSubDays, Op::OSubDate, Op::OSubTs, Op::OLastDay, Op::OTrunc, Op::ORound, Op::OToTs, Op::ODate,
    Op::OTime, Op::ORebuild, Op::OFmtParse,
];

#[derive(Copy, Clone, Debug, PartialEq, Eq)]
pub enum ArgKind {
    None,
    I32,
    F64,
    Date,
    Time,
    Ts,
    Ym,
    Dt,
    Od,
    Unit,
}

impl Op {
    /// (receiver type tag, operand kind, is this a linear integer operation (C08)?)
    pub fn sig(self) -> (u8, ArgKind, bool) {
        use ArgKind as A;
        use Op::*;
        match self {
            DAddDays | DSubDays => (0, A::I32, true),
            DAddYm | DSubYm => (0, A::Ym, false),
            DAddDt | DSubDt => (0, A::Dt, true),
            DAddTime | DSubTime | DAndTime => (0, A::Time, true),
            DSubDate => (0, A::Date, true),
            DSubTs => (0, A::Ts, true),
            DLastDay | DToTs | DRebuild | DFmtParse => (0, A::None, false),
            DTrunc | DRound => (0, A::Unit, false),
            TSubTime => (1, A::Time, true),
            TAddDt | TSubDt => (1, A::Dt, false),
            TMul | TDiv => (1, A::F64, false),
            TToDt | TRebuild | TFmtParse => (1, A::None, false),
            SAddDt | SSubDt => (2, A::Dt, true),
            SAddYm | SSubYm => (2, A::Ym, false),
            SAddTime | SSubTime => (2, A::Time, true),
            SAddDays | SSubDays | SOracleAddDays | SOracleSubDays => (2, A::F64, false),
            SSubDate => (2, A::Date, true),
            SSubTs => (2, A::Ts, true),
            SOracleSubDate => (2, A::Od, true),
            SLastDay | SDate | STime | SToOd | SRebuild | SFmtParse => (2, A::None, false),
            STrunc | SRound => (2, A::Unit, false),
            YAdd | YSub => (3, A::Ym, true),
            YMul | YDiv => (3, A::F64, false),
            YNeg | YRebuild | YFmtParse => (3, A::None, false),
            IAdd | ISub => (4, A::Dt, true),
            IMul | IDiv => (4, A::F64, false),
            ISubTime => (4, A::Time, true),
            INeg | IToTime | IRebuild | IFmtParse => (4, A::None, false),
            OAddDt | OSubDt => (5, A::Dt, false),
            OAddYm | OSubYm => (5, A::Ym, false),
            OAddTime | OSubTime => (5, A::Time, true),
            OAddDays | OSubDays => (5, A::F64, false),
            OSubDate => (5, A::Od, false),
            OSubTs => (5, A::Ts, true),
            OLastDay | OToTs | ODate | OTime | ORebuild | OFmtParse => (5, A::None, false),
            OTrunc | ORound => (5, A::Unit, false),
        }
    }
}

fn e2o<T>(r: Result<T, Error>, f: impl FnOnce(T) -> Out) -> Out {
    match r {
        Ok(v) => f(v),
        Err(e) => Out::Err(errk(&e)),
    }
}

fn fmt_parse<T, F, P>(v: T, pic: &str, fmt: F, parse: P) -> Result<T, Error>
where
    F: FnOnce(T, &mut String) -> Result<(), Error>,
    P: FnOnce(&str) -> Result<T, Error>,
{
    let mut s = String::new();
    let _ = pic;
    fmt(v, &mut s)?;
    parse(&s)
}

/// Apply one operation on the real code.  Panics are caught and reported as `Out::Panic`.
pub fn step_impl(s: Val, op: Op, a: Arg) -> Out {
    guard(|| step_impl_inner(s, op, a)).unwrap_or(Out::Panic)
}

fn step_impl_inner(s: Val, op: Op, a: Arg) -> Out {
    use Op::*;
    let ts = |t: Timestamp| Out::V(Val::Ts(t.usecs()));
    let od = |t: OracleDate| Out::V(Val::Od(t.usecs()));
    let dt = |t: IntervalDT| Out::V(Val::Dt(t.usecs()));
    let ym = |t: IntervalYM| Out::V(Val::Ym(t.months()));
    let dd = |t: Date| Out::V(Val::Date(t.days()));
    let tm = |t: Time| Out::V(Val::Time(t.usecs()));
    match (s, op, a) {
        // ---------------- Date
        (Val::Date(n), DAddDays, Arg::I32(k)) => e2o(mk_date(n).add_days(k), dd),
        (Val::Date(n), DSubDays, Arg::I32(k)) => e2o(mk_date(n).sub_days(k), dd),
        (Val::Date(n), DAddYm, Arg::V(Val::Ym(k))) => e2o(mk_date(n).add_interval_ym(mk_ym(k)), ts),
        (Val::Date(n), DSubYm, Arg::V(Val::Ym(k))) => e2o(mk_date(n).sub_interval_ym(mk_ym(k)), ts),
        (Val::Date(n), DAddDt, Arg::V(Val::Dt(k))) => e2o(mk_date(n).add_interval_dt(mk_dt(k)), ts),
        (Val::Date(n), DSubDt, Arg::V(Val::Dt(k))) => e2o(mk_date(n).sub_interval_dt(mk_dt(k)), ts),
        (Val::Date(n), DAddTime, Arg::V(Val::Time(t))) => ts(mk_date(n).add_time(mk_time(t))),
        (Val::Date(n), DSubTime, Arg::V(Val::Time(t))) => e2o(mk_date(n).sub_time(mk_time(t)), ts),
        (Val::Date(n), DSubDate, Arg::V(Val::Date(m))) => Out::I32(mk_date(n).sub_date(mk_date(m))),
        (Val::Date(n), DSubTs, Arg::V(Val::Ts(u))) => dt(mk_date(n).sub_timestamp(mk_ts(u))),
        (Val::Date(n), DAndTime, Arg::V(Val::Time(t))) => ts(mk_date(n).and_time(mk_time(t))),
        (Val::Date(n), DLastDay, Arg::None) => dd(mk_date(n).last_day_of_month()),
        (Val::Date(n), DTrunc, Arg::Unit(u)) => e2o(trunc_date(u, mk_date(n)), dd),
        (Val::Date(n), DRound, Arg::Unit(u)) => e2o(round_date(u, mk_date(n)), dd),
        (Val::Date(n), DToTs, Arg::None) => ts(Timestamp::from(mk_date(n))),
        (Val::Date(n), DRebuild, Arg::None) => {
            let (y, m, d) = mk_date(n).extract();
            e2o(Date::try_from_ymd(y, m, d), dd)
        }
        (Val::Date(n), DFmtParse, Arg::None) => e2o(
            fmt_parse(mk_date(n), "YYYY-MM-DD", |v, s| sqldatetime::Formatter::try_new("YYYY-MM-DD")?.format(v, s), |s| Date::parse(s, "YYYY-MM-DD")),
            dd,
        ),
        // ---------------- Time
        (Val::Time(t), TSubTime, Arg::V(Val::Time(o))) => dt(mk_time(t).sub_time(mk_time(o))),
        (Val::Time(t), TAddDt, Arg::V(Val::Dt(k))) => tm(mk_time(t).add_interval_dt(mk_dt(k))),
        (Val::Time(t), TSubDt, Arg::V(Val::Dt(k))) => tm(mk_time(t).sub_interval_dt(mk_dt(k))),
        (Val::Time(t), TMul, Arg::F64(f)) => e2o(mk_time(t).mul_f64(f), dt),
        (Val::Time(t), TDiv, Arg::F64(f)) => e2o(mk_time(t).div_f64(f), dt),
        (Val::Time(t), TToDt, Arg::None) => dt(IntervalDT::from(mk_time(t))),
        (Val::Time(t), TRebuild, Arg::None) => {
            let (h, mi, sec, us) = mk_time(t).extract();
            e2o(Time::try_from_hms(h, mi, sec, us), tm)
        }
        (Val::Time(t), TFmtParse, Arg::None) => e2o(
            fmt_parse(mk_time(t), "", |v, s| sqldatetime::Formatter::try_new("HH24:MI:SS.FF6")?.format(v, s), |s| Time::parse(s, "HH24:MI:SS.FF6")),
            tm,
        ),
        // ---------------- Timestamp
        (Val::Ts(u), SAddDt, Arg::V(Val::Dt(k))) => e2o(mk_ts(u).add_interval_dt(mk_dt(k)), ts),
        (Val::Ts(u), SSubDt, Arg::V(Val::Dt(k))) => e2o(mk_ts(u).sub_interval_dt(mk_dt(k)), ts),
        (Val::Ts(u), SAddYm, Arg::V(Val::Ym(k))) => e2o(mk_ts(u).add_interval_ym(mk_ym(k)), ts),
        (Val::Ts(u), SSubYm, Arg::V(Val::Ym(k))) => e2o(mk_ts(u).sub_interval_ym(mk_ym(k)), ts),
        (Val::Ts(u), SAddTime, Arg::V(Val::Time(t))) => e2o(mk_ts(u).add_time(mk_time(t)), ts),
        (Val::Ts(u), SSubTime, Arg::V(Val::Time(t))) => e2o(mk_ts(u).sub_time(mk_time(t)), ts),
        (Val::Ts(u), SAddDays, Arg::F64(f)) => e2o(mk_ts(u).add_days(f), ts),
        (Val::Ts(u), SSubDays, Arg::F64(f)) => e2o(mk_ts(u).sub_days(f), ts),
        (Val::Ts(u), SSubDate, Arg::V(Val::Date(n))) => dt(mk_ts(u).sub_date(mk_date(n))),
        (Val::Ts(u), SSubTs, Arg::V(Val::Ts(o))) => dt(mk_ts(u).sub_timestamp(mk_ts(o))),
        (Val::Ts(u), SLastDay, Arg::None) => ts(mk_ts(u).last_day_of_month()),
        (Val::Ts(u), STrunc, Arg::Unit(k)) => e2o(trunc_ts(k, mk_ts(u)), ts),
        (Val::Ts(u), SRound, Arg::Unit(k)) => e2o(round_ts(k, mk_ts(u)), ts),
        (Val::Ts(u), SDate, Arg::None) => match DateTime::date(&mk_ts(u)) {
            Some(d) => dd(d),
            None => Out::Err("no-date"),
        },
        (Val::Ts(u), STime, Arg::None) => tm(Time::from(mk_ts(u))),
        (Val::Ts(u), SToOd, Arg::None) => od(OracleDate::from(mk_ts(u))),
        (Val::Ts(u), SOracleSubDate, Arg::V(Val::Od(o))) => dt(mk_ts(u).oracle_sub_date(mk_od(o))),
        (Val::Ts(u), SOracleAddDays, Arg::F64(f)) => e2o(mk_ts(u).oracle_add_days(f), od),
        (Val::Ts(u), SOracleSubDays, Arg::F64(f)) => e2o(mk_ts(u).oracle_sub_days(f), od),
        (Val::Ts(u), SRebuild, Arg::None) => {
            let (d, t) = mk_ts(u).extract();
            ts(Timestamp::new(d, t))
        }
        (Val::Ts(u), SFmtParse, Arg::None) => e2o(
            fmt_parse(mk_ts(u), "", |v, s| sqldatetime::Formatter::try_new("YYYY-MM-DD HH24:MI:SS.FF6")?.format(v, s), |s| Timestamp::parse(s, "YYYY-MM-DD HH24:MI:SS.FF6")),
            ts,
        ),
        // ---------------- IntervalYM
        (Val::Ym(m), YAdd, Arg::V(Val::Ym(k))) => e2o(mk_ym(m).add_interval_ym(mk_ym(k)), ym),
        (Val::Ym(m), YSub, Arg::V(Val::Ym(k))) => e2o(mk_ym(m).sub_interval_ym(mk_ym(k)), ym),
        (Val::Ym(m), YMul, Arg::F64(f)) => e2o(mk_ym(m).mul_f64(f), ym),
        (Val::Ym(m), YDiv, Arg::F64(f)) => e2o(mk_ym(m).div_f64(f), ym),
        (Val::Ym(m), YNeg, Arg::None) => ym(-mk_ym(m)),
        (Val::Ym(m), YRebuild, Arg::None) => {
            let (sg, y, mo) = mk_ym(m).extract();
            e2o(IntervalYM::try_from_ym(y, mo), |v| ym(if sg == sqldatetime::Sign::Negative { -v } else { v }))
        }
        (Val::Ym(m), YFmtParse, Arg::None) => e2o(
            fmt_parse(mk_ym(m), "", |v, s| sqldatetime::Formatter::try_new("YYYY-MM")?.format(v, s), |s| IntervalYM::parse(s, "YYYY-MM")),
            ym,
        ),
        // ---------------- IntervalDT
        (Val::Dt(u), IAdd, Arg::V(Val::Dt(k))) => e2o(mk_dt(u).add_interval_dt(mk_dt(k)), dt),
        (Val::Dt(u), ISub, Arg::V(Val::Dt(k))) => e2o(mk_dt(u).sub_interval_dt(mk_dt(k)), dt),
        (Val::Dt(u), IMul, Arg::F64(f)) => e2o(mk_dt(u).mul_f64(f), dt),
        (Val::Dt(u), IDiv, Arg::F64(f)) => e2o(mk_dt(u).div_f64(f), dt),
        (Val::Dt(u), INeg, Arg::None) => dt(-mk_dt(u)),
        (Val::Dt(u), ISubTime, Arg::V(Val::Time(t))) => e2o(mk_dt(u).sub_time(mk_time(t)), dt),
        (Val::Dt(u), IToTime, Arg::None) => tm(Time::from(mk_dt(u))),
        (Val::Dt(u), IRebuild, Arg::None) => {
            let (sg, d, h, mi, sec, us) = mk_dt(u).extract();
            e2o(IntervalDT::try_from_dhms(d, h, mi, sec, us), |v| dt(if sg == sqldatetime::Sign::Negative { -v } else { v }))
        }
        (Val::Dt(u), IFmtParse, Arg::None) => e2o(
            fmt_parse(mk_dt(u), "", |v, s| sqldatetime::Formatter::try_new("DD HH24:MI:SS.FF6")?.format(v, s), |s| IntervalDT::parse(s, "DD HH24:MI:SS.FF6")),
            dt,
        ),
        // ---------------- OracleDate
        (Val::Od(u), OAddDt, Arg::V(Val::Dt(k))) => e2o(mk_od(u).add_interval_dt(mk_dt(k)), od),
        (Val::Od(u), OSubDt, Arg::V(Val::Dt(k))) => e2o(mk_od(u).sub_interval_dt(mk_dt(k)), od),
        (Val::Od(u), OAddYm, Arg::V(Val::Ym(k))) => e2o(mk_od(u).add_interval_ym(mk_ym(k)), od),
        (Val::Od(u), OSubYm, Arg::V(Val::Ym(k))) => e2o(mk_od(u).sub_interval_ym(mk_ym(k)), od),
        (Val::Od(u), OAddTime, Arg::V(Val::Time(t))) => e2o(mk_od(u).add_time(mk_time(t)), ts),
        (Val::Od(u), OSubTime, Arg::V(Val::Time(t))) => e2o(mk_od(u).sub_time(mk_time(t)), ts),
        (Val::Od(u), OAddDays, Arg::F64(f)) => e2o(mk_od(u).add_days(f), od),
        (Val::Od(u), OSubDays, Arg::F64(f)) => e2o(mk_od(u).sub_days(f), od),
        (Val::Od(u), OSubDate, Arg::V(Val::Od(o))) => Out::F64(mk_od(u).sub_date(mk_od(o))),
        (Val::Od(u), OSubTs, Arg::V(Val::Ts(o))) => dt(mk_od(u).sub_timestamp(mk_ts(o))),
        (Val::Od(u), OLastDay, Arg::None) => od(mk_od(u).last_day_of_month()),
        (Val::Od(u), OTrunc, Arg::Unit(k)) => e2o(trunc_od(k, mk_od(u)), od),
        (Val::Od(u), ORound, Arg::Unit(k)) => e2o(round_od(k, mk_od(u)), od),
        (Val::Od(u), OToTs, Arg::None) => ts(Timestamp::from(mk_od(u))),
        (Val::Od(u), ODate, Arg::None) => match DateTime::date(&mk_od(u)) {
            Some(d) => dd(d),
            None => Out::Err("no-date"),
        },
        (Val::Od(u), OTime, Arg::None) => tm(Time::from(mk_od(u))),
        (Val::Od(u), ORebuild, Arg::None) => {
            let (d, t) = mk_od(u).extract();
            od(OracleDate::new(d, t))
        }
        (Val::Od(u), OFmtParse, Arg::None) => e2o(
            fmt_parse(mk_od(u), "", |v, s| sqldatetime::Formatter::try_new("YYYY-MM-DD HH24:MI:SS")?.format(v, s), |s| OracleDate::parse(s, "YYYY-MM-DD HH24:MI:SS")),
            od,
        ),
        (s, op, a) => panic!("harness: op {op:?} not applicable to {s:?} with {a:?}"),
    }
}

/// Month arithmetic reference on an instant (day n, time t): Exact(tag, µs) or MustFail.
fn ref_months(tag: u8, u: i128, k: i128) -> RefOut {
    let w = world();
    let day = US_DAY as i128;
    let n = u.div_euclid(day);
    let t = u.rem_euclid(day);
    let c = w.cal.at(n as i32);
    let (ny, nm) = add_months(c.y, c.m, k as i64);
    if (1..=9999).contains(&ny) && c.d <= month_len(ny as i32, nm) {
        RefOut::Exact(tag, w.cal.day_number(ny as i32, nm, c.d) as i128 * day + t)
    } else {
        RefOut::MustFail
    }
}

fn ref_unit(tag: u8, u: i128, unit: usize, round: bool) -> RefOut {
    let w = world();
    let day = US_DAY as i128;
    let n = u.div_euclid(day) as i32;
    let t = u.rem_euclid(day) as i64;
    let c = w.cal.at(n);
    let dr = day_ref(w, n);
    let scale = |v: i128| if tag == 0 { v.div_euclid(day) } else { v };
    if !round {
        if tag == 0 && unit >= 9 {
            return RefOut::Exact(0, n as i128);
        }
        match ref_trunc(&dr, unit, &c, t) {
            Some(v) => RefOut::Exact(tag, scale(v)),
            None => RefOut::MustFail,
        }
    } else {
        if tag == 0 && unit >= 9 {
            return RefOut::Exact(0, n as i128);
        }
        let max = match tag {
            0 => rg::DATE_MAX * day,
            2 => rg::TS_MAX,
            _ => rg::OD_MAX,
        };
        match ref_round(w, &dr, unit, &c, t, max) {
            Exp::Val(v) => RefOut::Exact(tag, scale(v)),
            Exp::Fail => RefOut::MustFail,
            Exp::Either(lo, hi, f) => RefOut::Either(tag, lo.map(scale), scale(hi), f),
        }
    }
}

/// The exact reference step.
pub fn step_ref(s: Val, op: Op, a: Arg) -> RefOut {
    use Op::*;
    let day = US_DAY as i128;
    let sec = US_SEC as i128;
    match (s, op, a) {
        (Val::Date(n), DAddDays, Arg::I32(k)) => RefOut::Exact(0, n as i128 + k as i128),
        (Val::Date(n), DSubDays, Arg::I32(k)) => RefOut::Exact(0, n as i128 - k as i128),
        (Val::Date(n), DAddYm, Arg::V(Val::Ym(k))) => ref_months(2, n as i128 * day, k as i128),
        (Val::Date(n), DSubYm, Arg::V(Val::Ym(k))) => ref_months(2, n as i128 * day, -(k as i128)),
        (Val::Date(n), DAddDt, Arg::V(Val::Dt(k))) => RefOut::Exact(2, n as i128 * day + k as i128),
        (Val::Date(n), DSubDt, Arg::V(Val::Dt(k))) => RefOut::Exact(2, n as i128 * day - k as i128),
        (Val::Date(n), DAddTime, Arg::V(Val::Time(t))) | (Val::Date(n), DAndTime, Arg::V(Val::Time(t))) => RefOut::Exact(2, n as i128 * day + t as i128),
        (Val::Date(n), DSubTime, Arg::V(Val::Time(t))) => RefOut::Exact(2, n as i128 * day - t as i128),
        (Val::Date(n), DSubDate, Arg::V(Val::Date(m))) => RefOut::I32(n as i128 - m as i128),
        (Val::Date(n), DSubTs, Arg::V(Val::Ts(u))) => RefOut::Exact(4, n as i128 * day - u as i128),
        (Val::Date(n), DLastDay, Arg::None) => {
            let c = world().cal.at(n);
            RefOut::Exact(0, (n + (month_len(c.y, c.m) - c.d) as i32) as i128)
        }
        (Val::Date(n), DTrunc, Arg::Unit(u)) => ref_unit(0, n as i128 * day, u, false),
        (Val::Date(n), DRound, Arg::Unit(u)) => ref_unit(0, n as i128 * day, u, true),
        (Val::Date(n), DToTs, Arg::None) => RefOut::Exact(2, n as i128 * day),
        (Val::Date(n), DRebuild, Arg::None) | (Val::Date(n), DFmtParse, Arg::None) => RefOut::Exact(0, n as i128),

        (Val::Time(t), TSubTime, Arg::V(Val::Time(o))) => RefOut::Exact(4, t as i128 - o as i128),
        (Val::Time(t), TAddDt, Arg::V(Val::Dt(k))) => RefOut::Exact(1, (t as i128 + k as i128).rem_euclid(day)),
        (Val::Time(t), TSubDt, Arg::V(Val::Dt(k))) => RefOut::Exact(1, (t as i128 - k as i128).rem_euclid(day)),
        (Val::Time(t), TToDt, Arg::None) => RefOut::Exact(4, t as i128),
        (Val::Time(t), TRebuild, Arg::None) | (Val::Time(t), TFmtParse, Arg::None) => RefOut::Exact(1, t as i128),

        (Val::Ts(u), SAddDt, Arg::V(Val::Dt(k))) => RefOut::Exact(2, u as i128 + k as i128),
        (Val::Ts(u), SSubDt, Arg::V(Val::Dt(k))) => RefOut::Exact(2, u as i128 - k as i128),
        (Val::Ts(u), SAddYm, Arg::V(Val::Ym(k))) => ref_months(2, u as i128, k as i128),
        (Val::Ts(u), SSubYm, Arg::V(Val::Ym(k))) => ref_months(2, u as i128, -(k as i128)),
        (Val::Ts(u), SAddTime, Arg::V(Val::Time(t))) => RefOut::Exact(2, u as i128 + t as i128),
        (Val::Ts(u), SSubTime, Arg::V(Val::Time(t))) => RefOut::Exact(2, u as i128 - t as i128),
        (Val::Ts(u), SSubDate, Arg::V(Val::Date(n))) => RefOut::Exact(4, u as i128 - n as i128 * day),
        (Val::Ts(u), SSubTs, Arg::V(Val::Ts(o))) => RefOut::Exact(4, u as i128 - o as i128),
        (Val::Ts(u), SOracleSubDate, Arg::V(Val::Od(o))) => RefOut::Exact(4, u as i128 - o as i128),
        (Val::Ts(u), SLastDay, Arg::None) => {
            let c = world().cal.at(u.div_euclid(US_DAY) as i32);
            RefOut::Exact(2, u as i128 + (month_len(c.y, c.m) - c.d) as i128 * day)
        }
        (Val::Ts(u), STrunc, Arg::Unit(k)) => ref_unit(2, u as i128, k, false),
        (Val::Ts(u), SRound, Arg::Unit(k)) => ref_unit(2, u as i128, k, true),
        (Val::Ts(u), SDate, Arg::None) => RefOut::Exact(0, (u as i128).div_euclid(day)),
        (Val::Ts(u), STime, Arg::None) => RefOut::Exact(1, (u as i128).rem_euclid(day)),
        (Val::Ts(u), SToOd, Arg::None) => RefOut::Exact(5, (u as i128).div_euclid(sec) * sec),
        (Val::Ts(u), SRebuild, Arg::None) | (Val::Ts(u), SFmtParse, Arg::None) => RefOut::Exact(2, u as i128),

        (Val::Ym(m), YAdd, Arg::V(Val::Ym(k))) => RefOut::Exact(3, m as i128 + k as i128),
        (Val::Ym(m), YSub, Arg::V(Val::Ym(k))) => RefOut::Exact(3, m as i128 - k as i128),
        (Val::Ym(m), YNeg, Arg::None) => RefOut::Exact(3, -(m as i128)),
        (Val::Ym(m), YRebuild, Arg::None) | (Val::Ym(m), YFmtParse, Arg::None) => RefOut::Exact(3, m as i128),

        (Val::Dt(u), IAdd, Arg::V(Val::Dt(k))) => RefOut::Exact(4, u as i128 + k as i128),
        (Val::Dt(u), ISub, Arg::V(Val::Dt(k))) => RefOut::Exact(4, u as i128 - k as i128),
        (Val::Dt(u), INeg, Arg::None) => RefOut::Exact(4, -(u as i128)),
        (Val::Dt(u), ISubTime, Arg::V(Val::Time(t))) => RefOut::Exact(4, u as i128 - t as i128),
        (Val::Dt(u), IToTime, Arg::None) => RefOut::Exact(1, (u as i128).abs().rem_euclid(day)),
        (Val::Dt(u), IRebuild, Arg::None) | (Val::Dt(u), IFmtParse, Arg::None) => RefOut::Exact(4, u as i128),

        // Oracle date + interval = the timestamp result floored to the second
        (Val::Od(u), OAddDt, Arg::V(Val::Dt(k))) | (Val::Od(u), OSubDt, Arg::V(Val::Dt(k))) => {
            let r = if op == OAddDt { u as i128 + k as i128 } else { u as i128 - k as i128 };
            if rg::ts_ok(r) { RefOut::Exact(5, r.div_euclid(sec) * sec) } else { RefOut::MustFail }
        }
        (Val::Od(u), OAddYm, Arg::V(Val::Ym(k))) => match ref_months(5, u as i128, k as i128) { r => r },
        (Val::Od(u), OSubYm, Arg::V(Val::Ym(k))) => ref_months(5, u as i128, -(k as i128)),
        (Val::Od(u), OAddTime, Arg::V(Val::Time(t))) => RefOut::Exact(2, u as i128 + t as i128),
        (Val::Od(u), OSubTime, Arg::V(Val::Time(t))) => RefOut::Exact(2, u as i128 - t as i128),
        (Val::Od(u), OSubTs, Arg::V(Val::Ts(o))) => RefOut::Exact(4, u as i128 - o as i128),
        (Val::Od(u), OLastDay, Arg::None) => {
            let c = world().cal.at(u.div_euclid(US_DAY) as i32);
            RefOut::Exact(5, u as i128 + (month_len(c.y, c.m) - c.d) as i128 * day)
        }
        (Val::Od(u), OTrunc, Arg::Unit(k)) => ref_unit(5, u as i128, k, false),
        (Val::Od(u), ORound, Arg::Unit(k)) => ref_unit(5, u as i128, k, true),
        (Val::Od(u), OToTs, Arg::None) => RefOut::Exact(2, u as i128),
        (Val::Od(u), ODate, Arg::None) => RefOut::Exact(0, (u as i128).div_euclid(day)),
        (Val::Od(u), OTime, Arg::None) => RefOut::Exact(1, (u as i128).rem_euclid(day)),
        (Val::Od(u), ORebuild, Arg::None) | (Val::Od(u), OFmtParse, Arg::None) => RefOut::Exact(5, u as i128),
        _ => RefOut::Unspec,
    }
}

pub fn tag_in_range(tag: u8, v: i128) -> bool {
    match tag {
        0 => rg::date_ok(v),
        1 => rg::time_ok(v),
        2 => rg::ts_ok(v),
        3 => rg::ym_ok(v),
        4 => rg::dt_ok(v),
        _ => rg::od_ok(v),
    }
}

/// Operand alphabets of the closure.
pub struct Operands {
    pub i32s: Vec<i32>,
    pub f64s: Vec<f64>,
    pub dates: Vec<i32>,
    pub times: Vec<i64>,
    pub tss: Vec<i64>,
    pub yms: Vec<i32>,
    pub dts: Vec<i64>,
    pub ods: Vec<i64>,
}

impl Operands {
    pub fn standard(seed: u64, large: bool) -> Operands {
        let w = world();
        let limit_dt = 100_000_000i64 * US_DAY;
        let tmin = w.cal.min_day as i64 * US_DAY;
        let tmax = (w.cal.max_day as i64 + 1) * US_DAY - 1;
        let mut o = Operands {
            i32s: crate::pools::pool_i32(),
            f64s: vec![
                0.0, -0.0, 0.5, -0.5, 1.0, -1.0, 1e-9, -1e-9, 1e9, -1e9, 1e300, -1e300, f64::MAX, f64::MIN, 5e-324, f64::INFINITY, f64::NEG_INFINITY, f64::NAN,
                1.0 / 86_400.0, -1.0 / 86_400.0, 0.5 / 86_400.0, 3_652_058.0, -3_652_058.0, 0.1, 2.0, -3.0, 1e18,
            ],
            dates: vec![w.cal.min_day, 0, w.cal.max_day],
            times: vec![0, 1, 999_999, 12 * US_HOUR, US_DAY - 1],
            tss: vec![tmin, -1, 0, tmax],
            yms: vec![0, 1, -1, 12, -12, 13, 119_988, -119_988, 2_136_000_000, -2_136_000_000],
            dts: vec![0, 1, -1, US_SEC, -US_SEC, 500_000, 12 * US_HOUR, -12 * US_HOUR, US_DAY - 1, US_DAY, -US_DAY, 3_652_058 * US_DAY, -3_652_058 * US_DAY, 3_652_059 * US_DAY, limit_dt, -limit_dt],
            ods: vec![tmin, 0, tmax - 999_999],
        };
        if large {
            o.i32s.extend_from_slice(&[7, -7, 146_097, -146_097]);
            o.times.extend_from_slice(&[US_SEC, 30 * US_MIN, US_DAY - US_SEC]);
            o.yms.extend_from_slice(&[-13, 1200, -1200, 2_135_999_999]);
            o.dts.extend_from_slice(&[999_999, -999_999, 7 * US_DAY, -7 * US_DAY, limit_dt - 1, -(limit_dt - 1)]);
            o.f64s.extend_from_slice(&[0.25, -0.25, 365.25, -365.25, 1e-6, 7.0]);
            for k in 0..2u64 {
                o.dts.push(((splitmix(seed ^ (0x0BE7 + k)) % (2 * limit_dt as u64)) as i128 - limit_dt as i128) as i64);
                o.i32s.push(splitmix(seed ^ (0x0BE9 + k)) as i32 % 4_000_000);
            }
        }
        o
    }

    /// Flattened transition table: every (op, operand) pair, indexable by a u32 code, with the
    /// per-receiver-type index lists.  The `small` lists restrict the alphabet to unary
    /// operations, +/-1 unit and range-end operands (used for the deepest level).
    pub fn table(&self) -> Table {
        let mut all: Vec<(Op, Arg)> = Vec::new();
        let mut small: Vec<bool> = Vec::new();
        let mut push = |op: Op, a: Arg, sm: bool| {
            all.push((op, a));
            small.push(sm);
        };
        for &op in ALL_OPS {
            let (_, kind, _) = op.sig();
            match kind {
                ArgKind::None => push(op, Arg::None, true),
                ArgKind::Unit => (0..12).for_each(|u| push(op, Arg::Unit(u), true)),
                ArgKind::I32 => self.i32s.iter().for_each(|&k| push(op, Arg::I32(k), matches!(k, 1 | -1 | i32::MIN | i32::MAX | 3_652_058 | -3_652_058))),
                ArgKind::F64 => self.f64s.iter().for_each(|&f| push(op, Arg::F64(f), f.abs() == 1.0 || f.is_nan() || f.is_infinite() || f.abs() == 0.5)),
                ArgKind::Date => self.dates.iter().for_each(|&v| push(op, Arg::V(Val::Date(v)), true)),
                ArgKind::Time => self.times.iter().for_each(|&v| push(op, Arg::V(Val::Time(v)), v == 1 || v == US_DAY - 1)),
                ArgKind::Ts => self.tss.iter().for_each(|&v| push(op, Arg::V(Val::Ts(v)), true)),
                ArgKind::Od => self.ods.iter().for_each(|&v| push(op, Arg::V(Val::Od(v)), true)),
                ArgKind::Ym => self.yms.iter().for_each(|&v| push(op, Arg::V(Val::Ym(v)), v.abs() == 1 || v.abs() == 2_136_000_000)),
                ArgKind::Dt => self.dts.iter().for_each(|&v| push(op, Arg::V(Val::Dt(v)), v.abs() == 1 || v.abs() == 100_000_000 * US_DAY)),
            }
        }
        let mut by_tag: [Vec<u32>; 6] = Default::default();
        let mut small_by_tag: [Vec<u32>; 6] = Default::default();
        for (i, (op, _)) in all.iter().enumerate() {
            let t = op.sig().0 as usize;
            by_tag[t].push(i as u32);
            if small[i] {
                small_by_tag[t].push(i as u32);
            }
        }
        Table { all, by_tag, small_by_tag }
    }
}

pub struct Table {
    pub all: Vec<(Op, Arg)>,
    pub by_tag: [Vec<u32>; 6],
    pub small_by_tag: [Vec<u32>; 6],
}

impl Table {
    pub fn label(&self, code: u32) -> String {
        let (op, a) = &self.all[code as usize];
        format!("{op:?}({})", arg_show(a))
    }
}

pub fn seeds(seed: u64) -> Vec<Val> {
    let w = world();
    let mut v: Vec<Val> = Vec::new();
    v.extend(crate::pools::pool_dates(w, seed).into_iter().map(Val::Date));
    v.extend(crate::pools::pool_times(seed).into_iter().map(Val::Time));
    v.extend(crate::pools::pool_ts(w, seed).into_iter().map(Val::Ts));
    v.extend(crate::pools::pool_ym(seed).into_iter().map(Val::Ym));
    v.extend(crate::pools::pool_dt(seed).into_iter().map(Val::Dt));
    v.extend(crate::pools::pool_od(w, seed).into_iter().map(Val::Od));
    v
}

pub fn arg_show(a: &Arg) -> String {
    match a {
        Arg::None => String::new(),
        Arg::I32(k) => format!("{k}"),
        Arg::F64(f) => format!("{f:?}"),
        Arg::V(v) => v.show(),
        Arg::Unit(u) => UNIT_NAMES[*u].to_string(),
    }
}
