//! C10 — truncation returns the latest unit boundary not after the value.

use crate::common::*;
use crate::units::*;
use explorer::serde_json::json;
use explorer::{Acc, Ctx};
use refmodel::calendar::Cal;
use sqldatetime::{Date, OracleDate, Time, Timestamp};

#[inline]
fn check_instant(acc: &mut Acc, idx: u64, ty: &'static str, u: usize, c: &Cal, t: i64, want: Option<i128>, got: Result<Result<i64, sqldatetime::Error>, ()>, again: Option<Result<i64, ()>>) {
    acc.t(1);
    let inst = c.n as i128 * US_DAY as i128 + t as i128;
    let ok = match (&got, want) {
        (Ok(Ok(v)), Some(x)) => *v as i128 == x && (*v as i128) <= inst,
        (Ok(Err(_)), None) => true,
        _ => false,
    };
    if ok {
        match want {
            None => { acc.cls("fails_before_first_day"); acc.nontrivial += 1; }
            Some(x) if x != inst => { acc.cls("moved_back"); acc.nontrivial += 1; }
            Some(_) => acc.cls("already_on_boundary"),
        }
        if let (Some(a), Ok(Ok(v))) = (again, &got) {
            if a != Ok(*v) {
                acc.fail(&format!("C10:{ty}:{}:not-idempotent", UNIT_NAMES[u]), idx, || (format!("trunc_{0}(trunc_{0}(x)) for x = {1:04}-{2:02}-{3:02} {4}", UNIT_NAMES[u], c.y, c.m, c.d, fmt_time(t)), format!("{v}"), format!("{a:?}"), String::new()));
            }
        }
    } else {
        let kind = match (&got, want) {
            (Err(()), _) => "panic",
            (Ok(Ok(_)), None) => "returns-value-where-boundary-before-first-day",
            (Ok(Err(_)), Some(_)) => "fails-where-boundary-exists",
            _ => "wrong-boundary",
        };
        acc.fail(&format!("C10:{ty}:{}:{kind}", UNIT_NAMES[u]), idx, || {
            (format!("{ty} {:04}-{:02}-{:02} {} .trunc_{}()", c.y, c.m, c.d, fmt_time(t), UNIT_NAMES[u]),
             match want { Some(x) => format!("{} (day {} + {} µs)", x, x.div_euclid(US_DAY as i128), x.rem_euclid(US_DAY as i128)), None => "Err (boundary before 0001-01-01)".into() },
             format!("{got:?}"),
             format!("// {ty}: value at day {} time {} µs; call trunc_{}()", c.n, t, UNIT_NAMES[u]))
        });
    }
}

pub fn run(ctx: &mut Ctx) {
    let w = world();
    let cal = &w.cal;
    let crit = crit_times();
    let crit_s = crit_seconds();
    let total = cal.total_days() as u64;
    let seed = ctx.seed;
    ctx.rule("a case is one (value, unit, type) triple at a distinct sweep index; non-trivial = truncation moves the value to an earlier boundary or must fail");
    ctx.assume("reference: one independent predicate per unit ('does such a unit start on this day?') evaluated by the day-counting walker; truncation = latest boundary <= input");
    ctx.bound("critical_times", json!(crit.len()));

    // Date: all dates x 12 units (+ idempotence)
    let r = ctx.sweep("date_all_units", "all dates x 12 units on Date (with idempotence re-application)", total, 2048, |range, acc| {
        let mut c = cal.at(cal.min_day + range.start as i32);
        let mut prev: [Option<i64>; 12] = [None; 12];
        for idx in range {
            let dr = day_ref(w, c.n);
            let date = Date::try_from_days(c.n).unwrap();
            for u in 0..12 {
                acc.states += 1;
                acc.traces += 1;
                let want = ref_trunc(&dr, u, &c, 0);
                let got = guard(|| trunc_date(u, date).map(|d| d.days() as i64 * US_DAY));
                let again = match &got { Ok(Ok(v)) => Some(guard(|| trunc_date(u, Date::try_from_days((*v / US_DAY) as i32).unwrap()).map(|d| d.days() as i64 * US_DAY).unwrap_or(i64::MIN))), _ => None };
                check_instant(acc, idx, "Date", u, &c, 0, want, got.clone(), again);
                if let Ok(Ok(v)) = got {
                    if let Some(p) = prev[u] {
                        if v < p {
                            acc.fail(&format!("C10:Date:{}:not-monotone", UNIT_NAMES[u]), idx, || (format!("trunc_{} at day {} vs day {}", UNIT_NAMES[u], c.n - 1, c.n), "non-decreasing".into(), format!("{p} then {v}"), String::new()));
                        }
                    }
                    prev[u] = Some(v);
                }
            }
            if c.n == 18_922 {
                acc.want_sample = true;
                acc.sample(|| json!({"date": [c.y, c.m, c.d], "unit": "iso_year", "impl": format!("{:?}", trunc_date(2, date).map(|d| d.extract())), "reference_day": dr.tr[2]}));
                acc.want_sample = false;
            }
            c.next();
        }
    });
    ctx.require(&r, &["fails_before_first_day", "moved_back", "already_on_boundary"]);

    // Timestamp / OracleDate: all dates x critical times x 12 units
    let (crit, crit_s) = (&crit, &crit_s);
    let r = ctx.sweep("timestamp_oracle_all_units", "all dates x (critical times + 2 seed-derived times of day per date) x 12 units on Timestamp; x whole-second critical times on OracleDate", total, 512, |range, acc| {
        let mut c = cal.at(cal.min_day + range.start as i32);
        for idx in range {
            let dr = day_ref(w, c.n);
            let date = Date::try_from_days(c.n).unwrap();
            let extra = [(splitmix(seed ^ (c.n as u64).wrapping_mul(0xA24B)) % US_DAY as u64) as i64, (splitmix(seed ^ (c.n as u64).wrapping_mul(0x51ED) ^ 7) % US_DAY as u64) as i64];
            for &t in crit.iter().chain(extra.iter()) {
                let ts = Timestamp::new(date, Time::try_from_usecs(t).unwrap());
                for u in 0..12 {
                    acc.states += 1;
                    acc.traces += 1;
                    let want = ref_trunc(&dr, u, &c, t);
                    let got = guard(|| trunc_ts(u, ts).map(|x| x.usecs()));
                    check_instant(acc, idx, "Timestamp", u, &c, t, want, got, None);
                }
            }
            for &t in crit_s.iter() {
                let od = OracleDate::new(date, Time::try_from_usecs(t).unwrap());
                for u in 0..12 {
                    acc.states += 1;
                    acc.traces += 1;
                    let want = ref_trunc(&dr, u, &c, t);
                    let got = guard(|| trunc_od(u, od).map(|x| x.usecs()));
                    check_instant(acc, idx, "OracleDate", u, &c, t, want, got, None);
                }
            }
            c.next();
        }
    });
    ctx.require(&r, &["fails_before_first_day", "moved_back", "already_on_boundary"]);

    // every second of selected days
    let days = selected_days(w);
    ctx.bound("every_second_days", json!(days.iter().map(|&n| { let c = cal.at(n); format!("{:04}-{:02}-{:02}", c.y, c.m, c.d) }).collect::<Vec<_>>()));
    let days = &days;
    ctx.sweep("every_second_of_selected_days", "every second (x µs {0, 1, 123456, 654321, 999999}) of the selected days x 12 units on Timestamp, whole seconds on OracleDate", days.len() as u64 * 86_400, 4096, |range, acc| {
        for idx in range {
            let n = days[(idx / 86_400) as usize];
            let s = (idx % 86_400) as i64;
            let c = cal.at(n);
            let dr = day_ref(w, n);
            let date = Date::try_from_days(n).unwrap();
            for us in [0i64, 1, 123_456, 654_321, 999_999] {
                let t = s * US_SEC + us;
                let ts = Timestamp::new(date, Time::try_from_usecs(t).unwrap());
                for u in 0..12 {
                    acc.states += 1;
                    acc.traces += 1;
                    let got = guard(|| trunc_ts(u, ts).map(|x| x.usecs()));
                    let again = match &got { Ok(Ok(v)) => Some(guard(|| trunc_ts(u, Timestamp::try_from_usecs(*v).unwrap()).map(|x| x.usecs()).unwrap_or(i64::MIN))), _ => None };
                    check_instant(acc, idx, "Timestamp", u, &c, t, ref_trunc(&dr, u, &c, t), got, again);
                }
            }
            let t = s * US_SEC;
            let od = OracleDate::new(date, Time::try_from_usecs(t).unwrap());
            for u in 0..12 {
                acc.states += 1;
                acc.traces += 1;
                let got = guard(|| trunc_od(u, od).map(|x| x.usecs()));
                check_instant(acc, idx, "OracleDate", u, &c, t, ref_trunc(&dr, u, &c, t), got, None);
            }
        }
    });

    // every microsecond of one-minute windows around decision points (a time-of-day dependent rule is periodic in
    // the minute / hour / day, so one complete period at µs resolution is a complete sub-space)
    for (k, (label, start)) in micro_windows(w).into_iter().enumerate() {
        let r = ctx.sweep(&format!("every_microsecond_window_{k}"), &format!("every microsecond of {label} x 12 units on Timestamp"), 60_000_000, 1 << 16, |range, acc| {
            let mut cur: Option<(Cal, DayRef, Date)> = None;
            for idx in range {
                let inst = start + idx as i64;
                let (n, t) = (inst.div_euclid(US_DAY) as i32, inst.rem_euclid(US_DAY));
                if cur.as_ref().map(|x| x.0.n) != Some(n) {
                    cur = Some((cal.at(n), day_ref(w, n), Date::try_from_days(n).unwrap()));
                }
                let (c, dr, date) = cur.as_ref().unwrap();
                let ts = Timestamp::new(*date, Time::try_from_usecs(t).unwrap());
                for u in 0..12 {
                    acc.states += 1;
                    acc.traces += 1;
                    let got = guard(|| trunc_ts(u, ts).map(|x| x.usecs()));
                    check_instant(acc, idx, "Timestamp", u, c, t, ref_trunc(dr, u, c, t), got, None);
                }
            }
        });
        ctx.require(&r, &["moved_back"]);
    }
    if ctx.thorough() {
        let (label, start) = micro_hour_window(w);
        ctx.sweep("every_microsecond_of_an_hour", &format!("every microsecond of {label} x units day / hour / minute on Timestamp"), 3_600_000_000, 1 << 20, |range, acc| {
            let mut cur: Option<(Cal, DayRef, Date)> = None;
            for idx in range {
                let inst = start + idx as i64;
                let (n, t) = (inst.div_euclid(US_DAY) as i32, inst.rem_euclid(US_DAY));
                if cur.as_ref().map(|x| x.0.n) != Some(n) {
                    cur = Some((cal.at(n), day_ref(w, n), Date::try_from_days(n).unwrap()));
                }
                let (c, dr, date) = cur.as_ref().unwrap();
                let ts = Timestamp::new(*date, Time::try_from_usecs(t).unwrap());
                for u in 9..12 {
                    acc.states += 1;
                    acc.traces += 1;
                    let got = guard(|| trunc_ts(u, ts).map(|x| x.usecs()));
                    check_instant(acc, idx, "Timestamp", u, c, t, ref_trunc(dr, u, c, t), got, None);
                }
            }
        });
        // the complete value space of the Oracle-style date over one full 400-year cycle
        let (d0, d1) = cycle_days(w);
        ctx.bound("full_cycle", json!("1601-01-01 ..= 2000-12-31 (146,097 days) x every second of the day"));
        ctx.sweep("oracle_date_full_cycle_every_second", "every OracleDate value (whole second) of one 400-year Gregorian cycle x units day / hour / minute", (d1 - d0 + 1) as u64, 8, |range, acc| {
            for idx in range {
                let n = d0 + idx as i32;
                let c = cal.at(n);
                let dr = day_ref(w, n);
                let date = Date::try_from_days(n).unwrap();
                for s in 0..86_400i64 {
                    let t = s * US_SEC;
                    let od = OracleDate::new(date, Time::try_from_usecs(t).unwrap());
                    for u in 9..12 {
                        acc.states += 1;
                        acc.traces += 1;
                        let got = guard(|| trunc_od(u, od).map(|x| x.usecs()));
                        check_instant(acc, idx, "OracleDate", u, &c, t, ref_trunc(&dr, u, &c, t), got, None);
                    }
                }
            }
        });
    }

    // hidden per-thread state: two-step histories from the initial state
    crate::history::two_step_histories(ctx, "C10", crate::history::Family::Trunc);
    crate::history::alternating_with_anchor(ctx, "C10", crate::history::Family::Trunc);
    crate::history::first_call_in_fresh_process(ctx, "C10", crate::history::Family::Trunc);
}
