//! History independence, decided differentially.
//!
//! Every property here describes a FUNCTION of the call's inputs (C18: plus the clock).  State that
//! survives a call - a scratch value hoisted into a thread-local and not fully reset, a memo whose key
//! omits an input, a cache filled before validation - makes the outcome depend on the calls made
//! before.  This module explores that dimension without any model: over an alphabet of calls, every
//! ordered pair (a, b), INCLUDING a == b, is executed on a fresh thread (the initial state), and the
//! outcome of b must equal the outcome of b executed alone on a fresh thread.  If the two differ, at
//! least one of them contradicts the property, whatever the property's value for b is.
//!
//! Outcomes are compared as `Ok(<value>)` / `Err` only: error variants and messages are not part of any
//! property checked this way.

use crate::common::*;
use crate::probe::TV;
use explorer::serde_json::json;
use explorer::Ctx;
use refmodel::picture::Ty;
use sqldatetime::{Date, Formatter, IntervalDT, IntervalYM, OracleDate, Time, Timestamp};

pub struct Call {
    pub name: String,
    pub f: Box<dyn Fn() -> String + Send + Sync>,
}

pub fn call<F: Fn() -> String + Send + Sync + 'static>(name: impl Into<String>, f: F) -> Call {
    Call { name: name.into(), f: Box::new(f) }
}

fn run_on_fresh_thread(calls: &[&Call]) -> String {
    let res = std::thread::scope(|s| {
        s.spawn(|| {
            let mut last = String::new();
            for c in calls {
                last = match guard(|| (c.f)()) {
                    Ok(v) => v,
                    Err(()) => "PANIC".to_string(),
                };
            }
            last
        })
        .join()
    });
    res.unwrap_or_else(|_| "PANIC".to_string())
}

/// All ordered pairs of the alphabet on fresh threads against the single-call baseline.
pub fn pairwise(ctx: &mut Ctx, prop: &'static str, family: &'static str, calls: Vec<Call>) {
    let n = calls.len() as u64;
    // baseline: each call alone, twice (a call whose lone outcome is not reproducible is a harness defect)
    let base: Vec<String> = calls.iter().map(|c| run_on_fresh_thread(&[c])).collect();
    for (i, c) in calls.iter().enumerate() {
        let again = run_on_fresh_thread(&[c]);
        assert!(again == base[i], "history alphabet of {prop}/{family}: call {:?} is not deterministic on its own ({:?} vs {:?})", c.name, base[i], again);
    }
    ctx.bound(&format!("history_alphabet_{family}"), json!(calls.len()));
    let (calls_r, base_r) = (&calls, &base);
    let name = format!("pairwise_history_independence_{family}");
    let r = ctx.sweep_each(&name, "every ordered pair (a, b) of the call alphabet, including a == b, on a fresh thread: the outcome of b after a equals the outcome of b alone (Ok(value) / Err compared; no model involved)", n * n, 32, |idx, acc| {
        let (a, b) = ((idx / n) as usize, (idx % n) as usize);
        acc.states += 1;
        acc.t(1);
        acc.traces += 1;
        acc.nontrivial += 1;
        let got = run_on_fresh_thread(&[&calls_r[a], &calls_r[b]]);
        if a == b { acc.cls("same_call_twice") } else { acc.cls("second_call_after_a_different_call") }
        if got != base_r[b] {
            acc.fail(&format!("{prop}:history:{family}:outcome-depends-on-the-previous-call"), idx, || {
                (format!("fresh thread: {} ; then {}", calls_r[a].name, calls_r[b].name), format!("{} (the outcome of the second call on its own)", base_r[b]), got.clone(),
                 format!("// on one fresh thread run: {} ; {}", calls_r[a].name, calls_r[b].name))
            });
        }
    });
    ctx.require(&r, &["same_call_twice", "second_call_after_a_different_call"]);
}

/// The same oracle without the fresh thread: every ordered pair (a, b) of a LARGER alphabet is executed
/// back to back on whatever worker thread the sweep uses (so the state before a is arbitrary, not
/// initial) and both outcomes are compared with the lone-call baseline.  For a history-independent
/// implementation every call sequence must reproduce the baselines, so any sequence is a valid test;
/// this one puts every b directly after every a at about the cost of the two calls.
pub fn pairwise_same_thread(ctx: &mut Ctx, prop: &'static str, family: &'static str, calls: Vec<Call>) {
    let n = calls.len() as u64;
    let base: Vec<String> = calls.iter().map(|c| run_on_fresh_thread(&[c])).collect();
    ctx.bound(&format!("history_alphabet_same_thread_{family}"), json!(calls.len()));
    let (calls_r, base_r) = (&calls, &base);
    let name = format!("adjacent_pairs_on_one_thread_{family}");
    let r = ctx.sweep_each(&name, "every ordered pair (a, b) of the larger call alphabet executed back to back on a worker thread with arbitrary earlier history: both outcomes equal the outcomes of the lone calls on fresh threads", n * n, 4096, |idx, acc| {
        let (a, b) = ((idx / n) as usize, (idx % n) as usize);
        acc.states += 1;
        acc.t(2);
        acc.traces += 1;
        acc.nontrivial += 1;
        let ra = guard(|| (calls_r[a].f)()).unwrap_or_else(|_| "PANIC".to_string());
        let rb = guard(|| (calls_r[b].f)()).unwrap_or_else(|_| "PANIC".to_string());
        acc.cls("adjacent_pair");
        if ra != base_r[a] || rb != base_r[b] {
            let (which, got, want) = if rb != base_r[b] { (b, rb, &base_r[b]) } else { (a, ra, &base_r[a]) };
            acc.fail(&format!("{prop}:history:{family}:outcome-depends-on-earlier-calls"), idx, || {
                (format!("one thread: ... ; {} ; {}   (outcome of: {})", calls_r[a].name, calls_r[b].name, calls_r[which].name), format!("{want} (the outcome of that call on its own)"), got.clone(),
                 format!("// on one thread run: {} ; {}", calls_r[a].name, calls_r[b].name))
            });
        }
    });
    ctx.require(&r, &["adjacent_pair"]);
}

fn show<T: std::fmt::Debug, E>(r: Result<T, E>) -> String {
    match r {
        Ok(v) => format!("Ok({v:?})"),
        Err(_) => "Err".to_string(),
    }
}

/// Constructors and accessors of the calendar date (C01): invalid triples together with the day number
/// a sloppy normalisation would map them to.
pub fn calls_date() -> Vec<Call> {
    let w = world();
    let mut v: Vec<Call> = Vec::new();
    let triples: [(i32, u32, u32); 16] = [
        (2021, 2, 30), (2021, 2, 29), (2020, 2, 29), (2020, 2, 30), (2021, 4, 31), (2021, 13, 1), (2021, 0, 5), (2021, 1, 0), (2021, 1, 32), (2022, 1, 5), (2021, 12, 31), (2021, 3, 2), (1, 1, 1), (9999, 12, 31), (10000, 1, 1), (0, 12, 31),
    ];
    let mut days: Vec<i32> = vec![0, -1, w.cal.min_day, w.cal.max_day];
    for (y, m, d) in triples {
        v.push(call(format!("Date::try_from_ymd({y}, {m}, {d})"), move || show(Date::try_from_ymd(y, m, d).map(|x| (x.days(), x.extract())))));
        v.push(call(format!("Date::is_valid({y}, {m}, {d})"), move || format!("{}", Date::is_valid(y, m, d))));
        // the day a carry-over normalisation of the triple would denote
        if (1..=9999).contains(&y) {
            let mm = m.clamp(1, 12);
            let n = w.cal.day_number(y, mm, 1) as i64 + d as i64 - 1 + if m == 13 { 31 } else { 0 } - if m == 0 { 31 } else { 0 };
            if n >= w.cal.min_day as i64 && n <= w.cal.max_day as i64 { days.push(n as i32); }
        }
    }
    days.sort();
    days.dedup();
    for n in days {
        v.push(call(format!("Date::try_from_days({n}) -> extract / day_of_week / last_day_of_month"), move || show(Date::try_from_days(n).map(|x| (x.extract(), x.day_of_week() as u32, x.last_day_of_month().days())))));
    }
    v
}

/// Picture compilation and formatting (C04 / C19).
pub fn calls_format() -> Vec<Call> {
    let mut v: Vec<Call> = Vec::new();
    let long36 = "DD-".repeat(18);
    let long37 = format!("{}-", "DD-".repeat(18));
    let pics: Vec<String> = [
        "YYYY-MM-DD", "YYYY-MM-DD Q", "YYYY-MM-DD HH24:MI:SS", "YYYY-MM-DD HH24:MI:SS.FF3", "YYYY", "MM", "DD MON YYYY", "Day, DD Month YYYY", "DAM", "DAMI", "HH:MI AM", "hh24:mi:ss.ff", "YYYY   MM",
        "DDD", "D", "WW W", "X", "", "YYYY-MM-DD X", "FF9", "Dy dy DY", "YYYYT", "YYYYt",
    ].iter().map(|s| s.to_string()).chain([long36, long37]).collect();
    let ts = TV { ty: Ty::Timestamp, raw: 1_619_096_829_123_456 };
    let date = TV { ty: Ty::Date, raw: 18_739 };
    let time = TV { ty: Ty::Time, raw: 47_229_123_456 };
    let ym = TV { ty: Ty::IntervalYM, raw: -14 };
    let dt = TV { ty: Ty::IntervalDT, raw: 3 * 86_400_000_000 + 3_723_000_004 };
    for p in pics {
        let p1 = p.clone();
        v.push(call(format!("Formatter::try_new({p:?})"), move || show(Formatter::try_new(&p1).map(|_| ()))));
        for tv in [ts, date, time, ym, dt] {
            let p2 = p.clone();
            v.push(call(format!("{} formatted with {p:?}", tv.show()), move || match Formatter::try_new(&p2) { Ok(f) => show(tv.format_with(&f)), Err(_) => "Err(picture)".to_string() }));
        }
    }
    v
}

/// Parsing (C05 / C06), without clock-dependent pictures: failing calls that have already filled many
/// fields, followed by calls whose pictures omit fields.
pub fn calls_parse() -> Vec<Call> {
    let cases: Vec<(Ty, &str, &str)> = vec![
        (Ty::Timestamp, "YYYY-MM-DD HH24:MI:SS", "2021-01-01 10:20:45 x"), (Ty::Timestamp, "YYYY-MM-DD HH24:MI:SS", "2021-01-01 10:20:45"), (Ty::Timestamp, "YYYY-MM-DD HH24:MI", "2021-01-01 10:20"),
        (Ty::Timestamp, "YYYY-MM-DD HH24", "2021-01-01 10"), (Ty::Timestamp, "YYYY-MM-DD", "2021-01-01"), (Ty::Timestamp, "YYYY-MM-DD HH24:MI:SS.FF", "1969-12-31 23:59:59.999999"),
        (Ty::Timestamp, "YYYY-MM-DD HH24:MI:SS.FF", "2021-02-30 23:59:59.5"), (Ty::Timestamp, "YYYY-MM-DD HH12:MI:SS AM", "2021-06-15 11:22:33 PM"), (Ty::Timestamp, "YYYY-MM-DD HH12:MI", "2021-06-15 11:22"),
        (Ty::Timestamp, "YYYY-MM-DD DY", "2021-06-15 Mon"), (Ty::Timestamp, "YYYY-MM-DD DY", "2021-06-15 Tue"), (Ty::Timestamp, "YYYY DDD", "2023 112"), (Ty::Timestamp, "YYYY DDD", "2024 112"), (Ty::Timestamp, "YYYY DDD", "2023 366"),
        (Ty::Date, "YYYY-MM-DD", "2021-01-01"), (Ty::Date, "YYYY-MM-DD", "2021-13-01"), (Ty::Date, "YYYY DDD", "2024 060"), (Ty::Date, "YYYY DDD", "2023 060"), (Ty::Date, "DD Month YYYY", "07 September 2021"),
        (Ty::Date, "Day, DD Mon YYYY", "Wednesday, 06 Jan 2021"), (Ty::Date, "DD MON YYYY", "06 foo 2021"), (Ty::Date, "YYYY-MM-DD D", "2021-06-15 3"), (Ty::Date, "YYYY-MM-DD D", "2021-06-15 4"),
        (Ty::Time, "HH24:MI:SS.FF", "10:20:45.123456"), (Ty::Time, "HH24:MI:SS", "10:20:61"), (Ty::Time, "HH24:MI", "07:08"), (Ty::Time, "HH24", "07"), (Ty::Time, "HH12:MI AM", "12:30 am"), (Ty::Time, "MI:SS", "08:09"),
        (Ty::OracleDate, "YYYY-MM-DD HH24:MI:SS", "2021-01-01 10:20:45"), (Ty::OracleDate, "YYYY-MM-DD HH24", "2021-01-01 10"), (Ty::OracleDate, "YYYY-MM-DD HH24:MI:SS", "2021-01-01 10:60:45"),
        (Ty::IntervalYM, "YYYY-MM", "+0001-05"), (Ty::IntervalYM, "YYYY-MM", "-0001-13"), (Ty::IntervalYM, "YYYY", "0007"), (Ty::IntervalDT, "DD HH24:MI:SS.FF", "-03 04:05:06.000007"), (Ty::IntervalDT, "DD HH24:MI:SS", "03 24:05:06"),
        (Ty::IntervalDT, "DD HH24", "03 04"), (Ty::IntervalDT, "DD", "09"),
    ];
    cases.into_iter().map(|(ty, pic, text)| call(format!("{ty:?}::parse({text:?}, {pic:?})"), move || show(TV::parse(ty, text, pic)))).collect()
}

/// Parsing with defaults from the clock (C18): each call injects its own clock first.
pub fn calls_parse_clock() -> Vec<Call> {
    use sqldatetime::verif_hooks::set_now;
    let clocks: [(i32, u32, u32, i64); 3] = [(2023, 4, 10, 0), (2031, 7, 5, 12 * 3_600_000_000 + 1), (1969, 12, 31, 86_399_999_999)];
    let cases: Vec<(Ty, &str, &str)> = vec![
        (Ty::Date, "DD", "31"), (Ty::Date, "DD", "15"), (Ty::Date, "", ""), (Ty::Date, "MM-DD", "02-29"), (Ty::Date, "YY-MM-DD", "24-03-15"), (Ty::Date, "YY MM DD", "24 03 15"), (Ty::Date, "YYY/MM/DD", "024/03/15"),
        (Ty::Date, "DDD", "060"), (Ty::Date, "YYYY-MM-DD", "2000-02-29"), (Ty::Timestamp, "HH24:MI", "13:45"), (Ty::Timestamp, "DD HH12", "01"), (Ty::OracleDate, "YYYY", "1999"),
    ];
    let mut v = Vec::new();
    for (cy, cm, cd, tod) in clocks {
        for (ty, pic, text) in cases.iter().copied() {
            v.push(call(format!("clock {cy:04}-{cm:02}-{cd:02}: {ty:?}::parse({text:?}, {pic:?})"), move || {
                set_now(Some(crate::c18::clock(cy, cm, cd, tod)));
                let r = show(TV::parse(ty, text, pic));
                set_now(None);
                r
            }));
        }
        v.push(call(format!("clock {cy:04}-{cm:02}-{cd:02}: Date::now() / Timestamp::now() / OracleDate::now()"), move || {
            set_now(Some(crate::c18::clock(cy, cm, cd, tod)));
            let r = format!("{} {} {}", show(Date::now().map(|d| d.days())), show(Timestamp::now().map(|t| t.usecs())), show(OracleDate::now().map(|t| t.usecs())));
            set_now(None);
            r
        }));
    }
    v
}

/// Serialization (C15): values of different types with the same raw count, whole-second values after
/// fractional ones, decoding of valid and invalid payloads.
pub fn calls_serde() -> Vec<Call> {
    use explorer::serde_json;
    let mut v: Vec<Call> = Vec::new();
    macro_rules! ser { ($name:expr, $val:expr) => {{ let x = $val; v.push(call(format!("to_string({})", $name), move || show(serde_json::to_string(&x)))); v.push(call(format!("bincode({})", $name), move || show(bincode::serialize(&x)))); }}; }
    for us in [3_723_000_004i64, 45_045_500_000, 45_060_000_000, 0, 86_399_999_999] {
        ser!(format!("Time {us}"), Time::try_from_usecs(us).unwrap());
        ser!(format!("IntervalDT {us}"), IntervalDT::try_from_usecs(us).unwrap());
        ser!(format!("IntervalDT -{us}"), IntervalDT::try_from_usecs(-us).unwrap());
    }
    for us in [1_609_496_445_000_000i64, 1_609_496_445_500_000, -1_000_000, 0] {
        ser!(format!("Timestamp {us}"), Timestamp::try_from_usecs(us).unwrap());
        if us % 1_000_000 == 0 { ser!(format!("OracleDate {us}"), OracleDate::try_from_usecs(us).unwrap()); }
    }
    for n in [18_628i32, 14, -14, 0] {
        ser!(format!("Date {n}"), Date::try_from_days(n).unwrap());
        ser!(format!("IntervalYM {n}"), IntervalYM::try_from_months(n).unwrap());
    }
    for (ty, doc) in [
        (Ty::Date, "\"2021-01-01\""), (Ty::Date, "\"2021-02-30\""), (Ty::Time, "\"12:31:00.000000\""), (Ty::Time, "\"12:30:45.500000\""), (Ty::Time, "\"25:00:00\""), (Ty::Timestamp, "\"2021-01-01 10:20:45.500000\""),
        (Ty::Timestamp, "\"2021-01-01 10:20\""), (Ty::OracleDate, "\"2021-01-01 10:20:45\""), (Ty::IntervalYM, "\"+0001-02\""), (Ty::IntervalDT, "\"+00 01:02:03.000004\""), (Ty::IntervalDT, "\"01:02:03.000004\""),
    ] {
        v.push(call(format!("from_str::<{ty:?}>({doc})"), move || show(match ty {
            Ty::Date => serde_json::from_str::<Date>(doc).map(|x| x.days() as i64).map_err(|_| ()),
            Ty::Time => serde_json::from_str::<Time>(doc).map(|x| x.usecs()).map_err(|_| ()),
            Ty::Timestamp => serde_json::from_str::<Timestamp>(doc).map(|x| x.usecs()).map_err(|_| ()),
            Ty::OracleDate => serde_json::from_str::<OracleDate>(doc).map(|x| x.usecs()).map_err(|_| ()),
            Ty::IntervalYM => serde_json::from_str::<IntervalYM>(doc).map(|x| x.months() as i64).map_err(|_| ()),
            Ty::IntervalDT => serde_json::from_str::<IntervalDT>(doc).map(|x| x.usecs()).map_err(|_| ()),
        })));
    }
    v
}

/// The operation table of the closure (every safe operation of the six types) as a call alphabet:
/// two receiver values per type (an ordinary one, a range end) x a few operands per operand kind
/// (ordinary, sign change, range end / NaN), filtered per property.
pub fn calls_ops(small: bool, filter: &dyn Fn(crate::optable::Op) -> bool) -> Vec<Call> {
    use crate::optable::*;
    let w = world();
    let limit_dt = 100_000_000i64 * US_DAY;
    let tmin = w.cal.min_day as i64 * US_DAY;
    let tmax = (w.cal.max_day as i64 + 1) * US_DAY - 1;
    // per type: an ordinary value, a sibling of it (same month and day in another year / same day at another
    // time / the opposite sign), a range end
    let states: [[Val; 3]; 6] = [
        [Val::Date(18_717), Val::Date(w.cal.day_number(9950, 3, 31)), Val::Date(w.cal.max_day)],
        [Val::Time(86_399_999_999), Val::Time(5_400_000_000), Val::Time(0)],
        [Val::Ts(1_617_235_199_500_000), Val::Ts(1_617_192_000_000_000), Val::Ts(tmin)],
        [Val::Ym(14), Val::Ym(-14), Val::Ym(2_136_000_000)],
        [Val::Dt(3 * US_DAY + 3_723_000_004), Val::Dt(-5_400_000_000), Val::Dt(-limit_dt)],
        [Val::Od(1_617_235_199_000_000), Val::Od(1_617_192_000_000_000), Val::Od(tmax - 999_999)],
    ];
    let mut v: Vec<Call> = Vec::new();
    for &op in ALL_OPS {
        if !filter(op) { continue; }
        let (tag, kind, _) = op.sig();
        let args: Vec<Arg> = match kind {
            ArgKind::None => vec![Arg::None],
            ArgKind::Unit => if small { [0usize, 2, 4, 5, 9, 11].into_iter().map(Arg::Unit).collect() } else { (0..12).map(Arg::Unit).collect() },
            ArgKind::I32 => vec![Arg::I32(1), Arg::I32(-400), Arg::I32(i32::MAX), Arg::I32(3_652_058), Arg::I32(-3_652_058)],
            ArgKind::F64 => vec![Arg::F64(0.5), Arg::F64(-1.0 / 86_400.0), Arg::F64(f64::NAN), Arg::F64(1e300), Arg::F64(3.0), Arg::F64(3_652_058.0), Arg::F64(-3_652_058.0)],
            ArgKind::Date => [vec![Arg::V(Val::Date(0))], states[0].iter().map(|v| Arg::V(*v)).collect()].concat(),
            ArgKind::Time => [vec![Arg::V(Val::Time(1))], states[1].iter().map(|v| Arg::V(*v)).collect()].concat(),
            ArgKind::Ts => [vec![Arg::V(Val::Ts(-1)), Arg::V(Val::Ts(tmax))], states[2].iter().map(|v| Arg::V(*v)).collect()].concat(),
            ArgKind::Od => [vec![Arg::V(Val::Od(0))], states[5].iter().map(|v| Arg::V(*v)).collect()].concat(),
            ArgKind::Ym => [vec![Arg::V(Val::Ym(1)), Arg::V(Val::Ym(-13)), Arg::V(Val::Ym(1200))], states[3].iter().map(|v| Arg::V(*v)).collect()].concat(),
            ArgKind::Dt => [vec![Arg::V(Val::Dt(-1)), Arg::V(Val::Dt(US_DAY)), Arg::V(Val::Dt(limit_dt))], states[4].iter().map(|v| Arg::V(*v)).collect()].concat(),
        };
        for (si, s) in states[tag as usize].into_iter().enumerate() {
            if small && si > 0 { continue; }
            for (ai, a) in args.iter().copied().enumerate() {
                if small && ai >= 3 && !matches!(kind, ArgKind::Unit) { continue; }
                v.push(call(format!("{}.{op:?}({})", explorer::bfs::BfsState::show(&s), arg_show(&a)), move || match step_impl(s, op, a) {
                    Out::Err(_) => "Err".to_string(),
                    other => format!("{other:?}"),
                }));
            }
        }
    }
    v
}

/// Field accessors and field constructors of times, timestamps and intervals (C07 / C13): a value and its
/// negation, a value and a neighbour, valid and invalid field tuples (each also twice in a row).
pub fn calls_accessors() -> Vec<Call> {
    use sqldatetime::DateTime;
    let mut v: Vec<Call> = Vec::new();
    for us in [3 * US_DAY + 3_723_000_004i64, 5_400_000_000, 86_400_000_000, 1, 8_639_999_999_999_999_999 / 1_000 * 1_000] {
        for x in [us, -us] {
            let iv = IntervalDT::try_from_usecs(x).unwrap();
            v.push(call(format!("IntervalDT({x}).extract()"), move || format!("{:?}", iv.extract())));
            v.push(call(format!("IntervalDT({x}).day()"), move || format!("{:?}", iv.day())));
            v.push(call(format!("IntervalDT({x}).hour()"), move || format!("{:?}", iv.hour())));
            v.push(call(format!("IntervalDT({x}).minute()"), move || format!("{:?}", iv.minute())));
            v.push(call(format!("IntervalDT({x}).second()"), move || format!("{:?}", iv.second())));
            v.push(call(format!("-IntervalDT({x})"), move || format!("{:?}", (-iv).usecs())));
        }
    }
    for m in [14i32, 29, 89, 12, 2_136_000_000] {
        for x in [m, -m] {
            let iv = IntervalYM::try_from_months(x).unwrap();
            v.push(call(format!("IntervalYM({x}).extract()"), move || format!("{:?}", iv.extract())));
            v.push(call(format!("IntervalYM({x}).year()"), move || format!("{:?}", iv.year())));
            v.push(call(format!("IntervalYM({x}).month()"), move || format!("{:?}", iv.month())));
        }
    }
    for (y, m) in [(1u32, 2u32), (1, 12), (178_000_000, 0), (178_000_000, 1), (7, 5)] {
        v.push(call(format!("IntervalYM::try_from_ym({y}, {m})"), move || show(IntervalYM::try_from_ym(y, m).map(|i| i.months()))));
        v.push(call(format!("IntervalYM::is_valid_ym({y}, {m})"), move || format!("{}", IntervalYM::is_valid_ym(y, m))));
    }
    for (d, h, mi, s, f) in [(1u32, 2u32, 3u32, 4u32, 5u32), (1, 24, 0, 0, 0), (100_000_000, 0, 0, 0, 0), (100_000_000, 0, 0, 0, 1), (0, 0, 0, 0, 1_000_000), (0, 23, 59, 59, 999_999)] {
        v.push(call(format!("IntervalDT::try_from_dhms({d}, {h}, {mi}, {s}, {f})"), move || show(IntervalDT::try_from_dhms(d, h, mi, s, f).map(|i| i.usecs()))));
        v.push(call(format!("IntervalDT::is_valid({d}, {h}, {mi}, {s}, {f})"), move || format!("{}", IntervalDT::is_valid(d, h, mi, s, f))));
    }
    for (h, mi, s, f) in [(24u32, 0u32, 0u32, 0u32), (23, 59, 59, 999_999), (0, 0, 0, 1_000_000), (12, 60, 0, 0), (1, 2, 3, 4), (0, 0, 0, 0)] {
        v.push(call(format!("Time::try_from_hms({h}, {mi}, {s}, {f})"), move || show(Time::try_from_hms(h, mi, s, f).map(|t| t.usecs()))));
        v.push(call(format!("Time::is_valid({h}, {mi}, {s}, {f})"), move || format!("{}", Time::is_valid(h, mi, s, f))));
        for n in [0i32, -1, 18_717] {
            v.push(call(format!("Date({n}).and_hms({h}, {mi}, {s}, {f})"), move || show(Date::try_from_days(n).unwrap().and_hms(h, mi, s, f).map(|t| t.usecs()))));
        }
    }
    for us in [0i64, -1, -86_400_000_000, -86_400_000_001, 1_617_235_199_500_000, -500_000, -1_500_000] {
        let ts = Timestamp::try_from_usecs(us).unwrap();
        v.push(call(format!("Timestamp({us}).extract()"), move || format!("{:?}", ts.extract())));
        v.push(call(format!("Timestamp({us}).year/month/day/hour/minute/second"), move || format!("{:?} {:?} {:?} {:?} {:?} {:?}", ts.year(), ts.month(), ts.day(), ts.hour(), ts.minute(), ts.second())));
        v.push(call(format!("OracleDate::from(Timestamp({us}))"), move || format!("{}", OracleDate::from(ts).usecs())));
        v.push(call(format!("Time::from(Timestamp({us}))"), move || format!("{}", Time::from(ts).usecs())));
    }
    v
}
