//! Boundary pools per type: range ends, ends +/- 1 unit, epoch and neighbours, -1/0/+1 day
//! around month / year / century ends, leap days, first / last ISO weeks, powers of ten and unit
//! multiples for intervals — extended by a few seed-derived members (which are then crossed
//! exhaustively like the fixed ones).

use crate::common::*;

const DT_LIMIT: i64 = 100_000_000 * US_DAY;
const YM_LIMIT: i32 = 2_136_000_000;

fn fin<T: Ord + Copy>(mut v: Vec<T>) -> Vec<T> {
    v.sort();
    v.dedup();
    v
}

pub fn pool_dates(w: &World, seed: u64) -> Vec<i32> {
    let cal = &w.cal;
    let mut v = vec![cal.min_day, cal.min_day + 1, cal.max_day - 1, cal.max_day, -1, 0, 1];
    for d in 2..=7 {
        v.push(cal.min_day + d);
        v.push(cal.max_day - d);
    }
    for (y, m, d) in [
        (1, 12, 31), (2, 1, 1), (4, 2, 29), (100, 12, 31), (101, 1, 1), (1582, 10, 15), (1899, 12, 31), (1900, 1, 1), (1900, 2, 28), (1900, 3, 1),
        (1950, 12, 31), (1951, 1, 1), (1969, 12, 28), (1999, 12, 31), (2000, 1, 1), (2000, 2, 28), (2000, 2, 29), (2000, 3, 1), (2000, 6, 30), (2000, 7, 1),
        (2000, 12, 31), (2001, 1, 1), (2015, 12, 28), (2016, 1, 3), (2020, 12, 28), (2021, 1, 3), (2021, 1, 4), (2023, 1, 31), (2023, 2, 28), (2023, 3, 31),
        (2023, 4, 30), (2024, 1, 31), (2024, 2, 15), (2024, 2, 16), (2024, 2, 29), (2024, 5, 15), (2024, 5, 16), (2024, 8, 31), (2024, 11, 15), (2024, 11, 16),
        (2024, 12, 29), (2024, 12, 30), (2024, 12, 31), (2025, 1, 1), (9900, 12, 31), (9901, 1, 1), (9950, 1, 1), (9950, 12, 31), (9951, 1, 1), (9998, 12, 31),
        (9999, 1, 1), (9999, 6, 30), (9999, 7, 1), (9999, 11, 15), (9999, 11, 16), (9999, 12, 15), (9999, 12, 16),
        // leap days and their neighbours in years with special divisibility (4, 100, 200, 400, 1000, 4000)
        (4, 2, 29), (100, 2, 28), (100, 3, 1), (200, 2, 28), (200, 3, 1), (400, 2, 29), (1000, 2, 28), (1000, 3, 1), (1600, 2, 29), (1800, 2, 28), (1800, 3, 1), (2096, 2, 29), (2100, 2, 28),
        (2100, 3, 1), (2400, 2, 29), (4000, 2, 29), (4000, 3, 1), (8000, 2, 29), (9996, 2, 29), (9800, 2, 28), (9800, 3, 1),
    ] {
        v.push(cal.day_number(y, m, d));
    }
    for k in 0..4u64 {
        v.push(cal.min_day + (splitmix(seed ^ (0xDA7E + k)) % cal.total_days() as u64) as i32);
    }
    fin(v)
}

pub fn pool_times(seed: u64) -> Vec<i64> {
    let mut v = vec![0, 1, 999_999, US_SEC, US_SEC + 1, US_MIN - 1, US_MIN, 30 * US_MIN - 1, 30 * US_MIN, US_HOUR, 11 * US_HOUR + 59 * US_MIN + 59 * US_SEC + 999_999, 12 * US_HOUR, 12 * US_HOUR + 1, 23 * US_HOUR + 59 * US_MIN + 30 * US_SEC, US_DAY - US_SEC - 1, US_DAY - US_SEC, US_DAY - 1];
    for e in [8u32, 16, 24, 31, 32, 33, 36] {
        for d in [-1i64, 0, 1] {
            v.push((1i64 << e) + d);
        }
    }
    for k in 0..3u64 {
        v.push((splitmix(seed ^ (0x71AE + k)) % US_DAY as u64) as i64);
    }
    fin(v)
}

pub fn pool_ts(w: &World, seed: u64) -> Vec<i64> {
    let cal = &w.cal;
    let tmin = cal.min_day as i64 * US_DAY;
    let tmax = (cal.max_day as i64 + 1) * US_DAY - 1;
    let mut v = vec![tmin, tmin + 1, tmin + US_SEC, tmin + US_DAY - 1, tmin + US_DAY, tmax, tmax - 1, tmax - 999_999, tmax - US_SEC, tmax - US_DAY, tmax - US_DAY + 1, -US_DAY, -US_SEC - 1, -US_SEC, -1, 0, 1, US_SEC, US_DAY];
    for (y, m, d) in [(4, 2, 29), (400, 2, 29), (1800, 2, 28), (1800, 3, 1), (2096, 2, 29), (2100, 3, 1), (4000, 2, 29), (8000, 2, 29), (9996, 2, 29)] {
        v.push(cal.day_number(y, m, d) as i64 * US_DAY + 13 * US_HOUR + 14 * US_MIN + 15 * US_SEC + 123_456);
    }
    for d in [pool_dates(w, seed)[10], cal.day_number(2000, 2, 29), cal.day_number(1999, 12, 31), cal.day_number(9999, 12, 31), cal.day_number(1, 1, 1), cal.day_number(1969, 12, 31), cal.day_number(2024, 12, 31), cal.day_number(9950, 6, 15)] {
        for t in [0, 12 * US_HOUR - 1, 12 * US_HOUR, 23 * US_HOUR + 59 * US_MIN + 59 * US_SEC + 500_000] {
            v.push(d as i64 * US_DAY + t);
        }
    }
    for e in [31u32, 32, 33, 40, 48, 56] {
        for d in [-1i64, 0, 1] {
            v.push((1i64 << e) + d);
            v.push(-(1i64 << e) + d);
        }
    }
    // magnitudes around 2^53 (where f64 stops being exact)
    for x in [(1i64 << 53) - 1, 1 << 53, (1 << 53) + 1, -(1 << 53) - 1] {
        v.push(x);
    }
    for k in 0..4u64 {
        v.push(tmin + (splitmix(seed ^ (0x7500 + k)) % (tmax - tmin) as u64) as i64);
    }
    v.retain(|u| *u >= tmin && *u <= tmax);
    fin(v)
}

pub fn pool_od(w: &World, seed: u64) -> Vec<i64> {
    let mut v: Vec<i64> = pool_ts(w, seed).into_iter().map(|u| u.div_euclid(US_SEC) * US_SEC).collect();
    v.push((w.cal.max_day as i64 + 1) * US_DAY - US_SEC);
    fin(v)
}

pub fn pool_ym(seed: u64) -> Vec<i32> {
    let mut v = vec![0];
    for p in [1, 2, 3, 7, 11, 12, 13, 23, 24, 25, 100, 119, 120, 1200, 12 * 9998, 12 * 9999, 1_000_000, (1 << 24) - 1, 1 << 24, (1 << 24) + 1, 1_068_000_000, YM_LIMIT - 12, YM_LIMIT - 1, YM_LIMIT] {
        v.push(p);
        v.push(-p);
    }
    for e in [8u32, 15, 16, 30] {
        for d in [-1i32, 0, 1] {
            v.push((1i32 << e) + d);
            v.push(-((1i32 << e) + d));
        }
    }
    // complements to the i32 extremes: sums of two in-range values that land exactly on +/-2^31
    for c in [11_483_647, 11_483_648, 11_483_649] {
        v.push(c);
        v.push(-c);
    }
    for k in 0..4u64 {
        v.push(((splitmix(seed ^ (0x1317 + k)) % (2 * YM_LIMIT as u64 + 1)) as i64 - YM_LIMIT as i64) as i32);
    }
    fin(v)
}

pub fn pool_dt(seed: u64) -> Vec<i64> {
    let mut v = vec![0];
    for p in [
        1, 2, 999_999, US_SEC, US_SEC + 1, US_MIN, US_HOUR, 12 * US_HOUR, US_DAY - 1, US_DAY, US_DAY + 1, 31 * US_DAY, 365 * US_DAY, 366 * US_DAY,
        3_652_058 * US_DAY, 3_652_059 * US_DAY, 3_652_059 * US_DAY - 1, (1 << 53) - 1, 1 << 53, (1 << 53) + 1, (1 << 53) + 3, (1i64 << 53) / 3, (1i64 << 53) / 7 + 1,
        (1i64 << 53) / 10, 1 << 62, DT_LIMIT / 3, DT_LIMIT / 2, DT_LIMIT - US_DAY, DT_LIMIT - 1025, DT_LIMIT - 1, DT_LIMIT,
    ] {
        v.push(p);
        v.push(-p);
    }
    // powers of two +/-1 (narrowing casts wrap there)
    for e in 0..=62u32 {
        for d in [-1i64, 0, 1] {
            let x = (1i64 << e) + d;
            if x > 0 && x <= DT_LIMIT {
                v.push(x);
                v.push(-x);
            }
        }
    }
    // complements to the i64 extremes: sums of two in-range values that land exactly on +/-2^63
    for c in [583_372_036_854_775_807i64, 583_372_036_854_775_808, 583_372_036_854_775_809] {
        v.push(c);
        v.push(-c);
    }
    for k in 0..4u64 {
        v.push(((splitmix(seed ^ (0xD700 + k)) % (2 * DT_LIMIT as u64 + 1)) as i128 - DT_LIMIT as i128) as i64);
    }
    fin(v)
}

pub fn pool_i32() -> Vec<i32> {
    vec![i32::MIN, i32::MIN + 1, -3_652_059, -3_652_058, -366, -365, -31, -1, 0, 1, 31, 365, 366, 3_652_058, 3_652_059, i32::MAX - 1, i32::MAX]
}

/// Multipliers / divisors / fractional day counts (as bit patterns are what matters, the list is
/// built from literals and powers of two).
pub fn pool_f64(seed: u64) -> Vec<f64> {
    let mut v: Vec<f64> = vec![0.0, -0.0, f64::NAN, f64::INFINITY, f64::NEG_INFINITY];
    let mut pos: Vec<f64> = vec![
        1.0, 2.0, 3.0, 7.0, 10.0, 12.0, 24.0, 60.0, 1000.0, 86_400.0, 1e6, 0.5, 0.25, 1.5, 2.5, 0.1, 0.2, 0.3, 1.1, 2.7, 1e-3, 1e-6, 1e-9, 1.0 / 3.0, 2.0 / 3.0,
        1.0 + f64::EPSILON, 1.0 - f64::EPSILON / 2.0, 5e-324, f64::MIN_POSITIVE, 1e-300, 1e-20, 1e15, 1e18, 8.64e18, 9.3e18, 1e19, 1e300, f64::MAX, f64::MAX / 2.0,
        2_136_000_000.0, 2_136_000_001.0, 0.999_999_999, 365.25, 36_524.25, 3_652_058.0, 3_652_059.0,
    ];
    for k in [1, 10, 20, 31, 32, 52, 53, 54, 62, 63, 64, 100, 1000] {
        pos.push(2f64.powi(k));
        pos.push(2f64.powi(-k));
    }
    // powers of two +/- 1 and +/- the calendar span (integer narrowing of a day count wraps there)
    for e in [15i32, 16, 31, 32, 33, 52, 53, 63, 64] {
        let b = 2f64.powi(e);
        for d in [1.0f64, 2.0, 3_652_058.0, 3_652_059.0, 719_162.0] {
            pos.push(b - d);
            pos.push(b + d);
        }
    }
    for k in 0..6u64 {
        // seed-derived finite doubles of moderate magnitude
        let r = splitmix(seed ^ (0xF640 + k));
        let mant = (r >> 12) as f64 / (1u64 << 52) as f64 + 1.0;
        let e = (r % 80) as i32 - 40;
        pos.push(mant * 2f64.powi(e));
    }
    for p in pos {
        v.push(p);
        v.push(-p);
    }
    v
}
