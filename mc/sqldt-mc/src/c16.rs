//! C16 — the Oracle-style date always holds whole seconds, flooring sub-second input.

use crate::c08::day_fraction_offsets;
use crate::closure::*;
use crate::common::*;
use crate::fref::*;
use crate::optable::*;
use crate::pools::*;
use explorer::serde_json::json;
use explorer::Ctx;
use refmodel::exact::{is_nearest_double, Rat};
use refmodel::ranges as rg;
use sqldatetime::{Date, OracleDate, Time, Timestamp};

pub fn run(ctx: &mut Ctx) {
    let w = world();
    let cal = &w.cal;
    let seed = ctx.seed;
    let crit = crit_times();
    ctx.rule("a case is one (value, operation, operand) triple at a distinct sweep index or closure transition; non-trivial = a non-zero sub-second part is discarded, an instant before 1970 is floored, a rounding to the nearest second is decided, or a range gate fires");
    ctx.assume("reference: div_euclid floor to the second; exact rational band for fractional days; correctly rounded double for the day difference");

    // 1. conversions: all dates x critical times x sub-second parts
    let subs: [i64; 5] = [0, 1, 499_999, 500_000, 999_999];
    let crit_secs = crit_seconds();
    let cs = &crit_secs;
    let total = cal.total_days() as u64;
    let r = ctx.sweep("conversions_floor", "all dates x whole-second critical times x sub-second {0,1,499999,500000,999999}: From<Timestamp>, OracleDate::new, Timestamp::from back", total, 2048, |range, acc| {
        for idx in range {
            let n = cal.min_day + idx as i32;
            let date = Date::try_from_days(n).unwrap();
            for &s0 in cs.iter() {
                for &f in &subs {
                    let t = s0 + f;
                    acc.states += 1;
                    acc.t(2);
                    acc.traces += 1;
                    let u = n as i128 * US_DAY as i128 + t as i128;
                    let want = u.div_euclid(US_SEC as i128) * US_SEC as i128;
                    let got = guard(|| {
                        let time = Time::try_from_usecs(t).unwrap();
                        let ts = Timestamp::new(date, time);
                        let a = OracleDate::from(ts);
                        let b = OracleDate::new(date, time);
                        use sqldatetime::DateTime;
                        let acc_ok = a.year() == ts.year() && a.month() == ts.month() && a.day() == ts.day() && a.hour() == ts.hour() && a.minute() == ts.minute()
                            && a.second() == Some((s0 / US_SEC % 60) as f64) && DateTime::date(&a) == Some(date) && Time::from(a).usecs() == s0;
                        (a.usecs(), b.usecs(), Timestamp::from(a).usecs(), a == b && acc_ok, a.extract())
                    });
                    let ok = match &got {
                        Ok((a, b, back, eq, (d2, t2))) => *a as i128 == want && *b as i128 == want && *back as i128 == want && *eq && d2.days() == n && t2.usecs() == s0 && rg::od_ok(*a as i128),
                        Err(()) => false,
                    };
                    if f != 0 { acc.nontrivial += 1; if n < 0 { acc.cls("pre_epoch_fraction_floored") } else { acc.cls("fraction_floored") } } else { acc.cls("whole_second_kept") }
                    if !ok {
                        acc.fail("C16:conversion:not-floored-to-whole-second", idx, || (format!("OracleDate::from(Timestamp day {n} + {t} µs) / OracleDate::new"), format!("{want}"), format!("{got:?}"),
                            format!("let ts = Timestamp::new(Date::try_from_days({n}).unwrap(), Time::try_from_usecs({t}).unwrap()); assert_eq!(OracleDate::from(ts).usecs(), {want});")));
                    }
                }
            }
        }
    });
    ctx.require(&r, &["pre_epoch_fraction_floored", "fraction_floored", "whole_second_kept"]);
    let _ = &crit;

    // 2. closure: every operation of the type on boundary operands, invariant after every step
    let thorough = ctx.thorough();
    let ops = Operands::standard(seed, thorough);
    let sd = seeds(seed);
    let (r, _) = run_closure(ctx, "oracle_closure", Mode::Oracle, if thorough { 4 } else { 3 }, if thorough { 3 } else { 99 }, &ops, &sd);
    ctx.require(&r, &["ok_value", "error"]);

    // 3. Oracle date +/- intervals = timestamp result floored (full pools, differential + exact)
    let ods = pool_od(w, seed);
    let mut dts = pool_dt(seed);
    dts.extend_from_slice(&[500_000, -500_000, 1_500_000, -1_500_001, 999_999_999_999, -86_399_999_999]);
    let yms = pool_ym(seed);
    let (ods_r, dts_r, yms_r) = (&ods, &dts, &yms);
    let nd = dts.len() as u64;
    let ny = yms.len() as u64;
    let per = (nd + ny) * 2;
    let r = ctx.sweep_each("oracle_plus_intervals", "oracle-date pool x (interval_dt pool + interval_ym pool) x {add, sub}: equals the Timestamp result floored to the second", ods.len() as u64 * per, 256, |idx, acc| {
        let o = ods_r[(idx / per) as usize];
        let k = idx % per;
        let sub = k % 2 == 1;
        let j = k / 2;
        acc.states += 1;
        acc.t(2);
        acc.traces += 1;
        let od = OracleDate::try_from_usecs(o).unwrap();
        let ts = Timestamp::try_from_usecs(o).unwrap();
        let (got, via_ts, what) = if j < nd {
            let iv = mk_dt(dts_r[j as usize]);
            (guard(|| if sub { od.sub_interval_dt(iv) } else { od.add_interval_dt(iv) }.map(|x| x.usecs()).map_err(|_| ())),
             guard(|| if sub { ts.sub_interval_dt(iv) } else { ts.add_interval_dt(iv) }.map(|x| x.usecs().div_euclid(US_SEC) * US_SEC).map_err(|_| ())),
             format!("IntervalDT({})", dts_r[j as usize]))
        } else {
            let iv = mk_ym(yms_r[(j - nd) as usize]);
            (guard(|| if sub { od.sub_interval_ym(iv) } else { od.add_interval_ym(iv) }.map(|x| x.usecs()).map_err(|_| ())),
             guard(|| if sub { ts.sub_interval_ym(iv) } else { ts.add_interval_ym(iv) }.map(|x| x.usecs().div_euclid(US_SEC) * US_SEC).map_err(|_| ())),
             format!("IntervalYM({})", yms_r[(j - nd) as usize]))
        };
        match &got { Ok(Ok(v)) => { if rg::od_ok(*v as i128) { acc.cls("ok_value") } else { acc.cls("bad") } } Ok(Err(())) => { acc.cls("error"); acc.nontrivial += 1; } Err(()) => acc.cls("panic") }
        let inv_ok = match &got { Ok(Ok(v)) => rg::od_ok(*v as i128), Ok(Err(())) => true, Err(()) => false };
        if got != via_ts || !inv_ok {
            acc.fail("C16:OracleDate:interval-arithmetic:not-timestamp-result-floored", idx, || (format!("OracleDate({o}) {} {what}", if sub { "-" } else { "+" }), format!("{via_ts:?} (timestamp result floored)"), format!("{got:?}"), String::new()));
        }
    });
    ctx.require(&r, &["ok_value", "error"]);

    // 4. fractional days: nearest second
    let mut bases: Vec<i64> = Vec::new();
    for y in [1, 2, 1600, 1969, 1970, 2255, 5000, 9000, 9999] {
        for (m, d, t) in [(1, 1, 0i64), (6, 15, 12 * US_HOUR), (12, 31, US_DAY - US_SEC)] {
            bases.push(cal.day_number(y, m, d) as i64 * US_DAY + t);
        }
    }
    bases.extend(ods.iter().copied());
    bases.sort();
    bases.dedup();
    let mut offs = day_fraction_offsets(seed);
    let day = 86_400_000_000f64;
    // offsets whose exact sum lands 10, 1, 0 µs before / after a half second
    for base_s in [0.0f64, 1.0, 59.0, 86_399.0] {
        for delta in [-10.0f64, -1.0, 0.0, 1.0, 10.0] {
            let t = base_s * 1e6 + 500_000.0 + delta;
            offs.push(t / day);
            offs.push(-t / day);
        }
    }
    ctx.bound("add_days", json!({"bases": bases.len(), "offsets": offs.len()}));
    let (bases_r, offs_r) = (&bases, &offs);
    let no = offs.len() as u64;
    let r = ctx.sweep_each("oracle_add_sub_days_f64", "base oracle dates (years 1..9999 + pool) x day offsets (integers, dyadic fractions, ticks around every half second, extremes) x {add_days, sub_days, Timestamp::oracle_add_days, oracle_sub_days}", bases.len() as u64 * no * 4, 256, |idx, acc| {
        let variant = idx % 4;
        let f = offs_r[((idx / 4) % no) as usize];
        let o = bases_r[(idx / 4 / no) as usize];
        acc.states += 1;
        acc.t(1);
        acc.traces += 1;
        let (op, state, eff) = match variant {
            0 => (Op::OAddDays, Val::Od(o), f),
            1 => (Op::OSubDays, Val::Od(o), -f),
            2 => (Op::SOracleAddDays, Val::Ts(o), f),
            _ => (Op::SOracleSubDays, Val::Ts(o), -f),
        };
        let got = step_impl(state, op, Arg::F64(f));
        let g: Result<i64, sqldatetime::Error> = match &got {
            Out::V(Val::Od(v)) => Ok(*v),
            Out::Err(_) => Err(sqldatetime::Error::DateOutOfRange),
            other => { let other = other.clone(); acc.fail("C16:add_days:panic-or-wrong-kind", idx, || (format!("{state:?}.{op:?}({f:?})"), "value or error".into(), format!("{other:?}"), String::new())); return; }
        };
        match judge_od_add_days(o, eff, &g) {
            Ok(c) => { acc.cls(c); acc.nontrivial += 1; }
            Err(exp) => acc.fail("C16:OracleDate:add_days:not-nearest-second-of-timestamp-result", idx, || {
                (format!("{}.{op:?}({f:?} = bits {:#018x})", explorer::bfs::BfsState::show(&state), f.to_bits()), exp, format!("{got:?}"),
                 format!("let r = OracleDate::try_from_usecs({o}).unwrap().add_days(f64::from_bits({:#018x}));", eff.to_bits()))
            }),
        }
    });
    ctx.require(&r, &["ok_exact_product", "ok_within_band", "range_error", "nan_or_infinite_days"]);

    // 4'. large offsets (beyond 2^53 µs, where a second rounding of the product costs 16-64 µs): the fraction is
    // swept densely (every microsecond) across the half-second tie, so any extra rounding shows
    let big_days: [f64; 7] = [104_251.0, 150_000.0, 200_000.0, 1_000_000.0, 3_000_000.0, 3_290_000.0, 3_600_000.0];
    let tie_bases: Vec<i64> = vec![cal.min_day as i64 * US_DAY, cal.day_number(123, 4, 5) as i64 * US_DAY + 13 * US_HOUR + 17 * US_MIN + 13 * US_SEC, cal.day_number(1000, 1, 1) as i64 * US_DAY + 59 * US_SEC];
    let tb = &tie_bases;
    let span: i64 = 140;
    let r = ctx.sweep_each("oracle_add_days_large_offsets_dense_ties", "3 base dates x 7 large whole-day counts x (half a second + delta µs) for every delta in -140..=140, as add_days and sub_days of the negation", 3 * 7 * (2 * span as u64 + 1), 64, |idx, acc| {
        let delta = (idx % (2 * span as u64 + 1)) as i64 - span;
        let kd = big_days[((idx / (2 * span as u64 + 1)) % 7) as usize];
        let o = tb[(idx / (2 * span as u64 + 1) / 7) as usize];
        let f = kd + (500_000 + delta) as f64 / 86_400_000_000.0;
        acc.states += 1;
        for (op, eff) in [(Op::OAddDays, f), (Op::OSubDays, -f)] {
            acc.t(1);
            acc.traces += 1;
            let arg = if op == Op::OAddDays { f } else { -f };
            let got = step_impl(Val::Od(o), op, Arg::F64(arg));
            let g: Result<i64, sqldatetime::Error> = match &got { Out::V(Val::Od(v)) => Ok(*v), Out::Err(_) => Err(sqldatetime::Error::DateOutOfRange), _ => { acc.fail("C16:add_days:panic-or-wrong-kind", idx, || (format!("OracleDate({o}).{op:?}({arg:?})"), "value or error".into(), format!("{got:?}"), String::new())); continue; } };
            let _ = eff;
            match judge_od_add_days(o, f, &g) {
                Ok(c) => { acc.cls(c); acc.nontrivial += 1; }
                Err(exp) => acc.fail("C16:OracleDate:add_days:not-nearest-second-of-timestamp-result", idx, || (format!("OracleDate({o}).{op:?}({arg:?} = bits {:#018x})", arg.to_bits()), exp, format!("{got:?}"), String::new())),
            }
        }
    });
    ctx.require(&r, &["ok_within_band"]);

    // 4''. many large day counts x the doubles nearest to (s + 1/2) seconds past the whole day (and their +/-2
    // neighbours): at this magnitude consecutive doubles are ~40 µs apart, so the ties are approached as
    // closely as the operand type allows
    let secs: [f64; 5] = [0.0, 1.0, 59.0, 3599.0, 43_200.0];
    let nk: u64 = if ctx.thorough() { 20_000 } else { 2_000 };
    let base0 = tb[1];
    let r = ctx.sweep_each("oracle_add_days_large_offsets_nearest_doubles_to_ties", "whole-day counts 104,251 + 1,733 i x the doubles nearest to (s + 0.5) seconds for s in {0,1,59,3599,43200} and their +/-2 neighbours", nk * 5 * 5, 256, |idx, acc| {
        let j = (idx % 5) as i64 - 2;
        let s = secs[((idx / 5) % 5) as usize];
        let kd = 104_251.0 + 1_733.0 * (idx / 25) as f64;
        let f0 = kd + (s + 0.5) / 86_400.0;
        let f = f64::from_bits((f0.to_bits() as i64 + j) as u64);
        acc.states += 1;
        acc.t(1);
        acc.traces += 1;
        let got = step_impl(Val::Od(base0), Op::OAddDays, Arg::F64(f));
        let g: Result<i64, sqldatetime::Error> = match &got { Out::V(Val::Od(v)) => Ok(*v), Out::Err(_) => Err(sqldatetime::Error::DateOutOfRange), _ => { acc.fail("C16:add_days:panic-or-wrong-kind", idx, || (format!("OracleDate({base0}).add_days({f:?})"), "value or error".into(), format!("{got:?}"), String::new())); return; } };
        match judge_od_add_days(base0, f, &g) {
            Ok(c) => { acc.cls(c); acc.nontrivial += 1; }
            Err(exp) => acc.fail("C16:OracleDate:add_days:not-nearest-second-of-timestamp-result", idx, || (format!("OracleDate({base0}).add_days({f:?} = bits {:#018x})", f.to_bits()), exp, format!("{got:?}"), String::new())),
        }
    });
    ctx.require(&r, &["ok_within_band"]);

    // 5. difference in days: the correctly rounded quotient (exact for whole days)
    let firsts = [cal.min_day as i64 * US_DAY, 0, (cal.max_day as i64 + 1) * US_DAY - US_SEC];
    let np = ods.len() as u64;
    let r = ctx.sweep_each("oracle_sub_date", "oracle-date pool^2 and all dates (midnight, 12:00:01) x {first, epoch, last}: distance in days = correctly rounded (a-b)/86,400,000,000", np * np + total * 6, 4096, |idx, acc| {
        let (a, b) = if idx < np * np { (ods_r[(idx / np) as usize], ods_r[(idx % np) as usize]) } else {
            let k = idx - np * np;
            let n = cal.min_day as i64 + (k / 6) as i64;
            let t = if (k % 6) / 3 == 0 { 0 } else { 12 * US_HOUR + US_SEC };
            (n * US_DAY + t, firsts[(k % 3) as usize])
        };
        acc.states += 1;
        acc.t(1);
        acc.traces += 1;
        let got = guard(|| OracleDate::try_from_usecs(a).unwrap().sub_date(OracleDate::try_from_usecs(b).unwrap()));
        let diff = a as i128 - b as i128;
        let p = Rat::from_int(diff).div(&Rat::from_int(86_400_000_000));
        let whole = diff % 86_400_000_000 == 0;
        let ok = match got { Ok(v) => is_nearest_double(v, &p) && (!whole || v == (diff / 86_400_000_000) as f64), Err(()) => false };
        if whole { acc.cls("whole_days") } else { acc.cls("fractional_days"); acc.nontrivial += 1; }
        if !ok {
            acc.fail("C16:OracleDate:sub_date:not-exact-distance-in-days", idx, || (format!("OracleDate({a}).sub_date(OracleDate({b}))"), format!("the double nearest to {diff}/86400000000"), format!("{got:?}"),
                format!("let d = OracleDate::try_from_usecs({a}).unwrap().sub_date(OracleDate::try_from_usecs({b}).unwrap());")));
        }
    });
    ctx.require(&r, &["whole_days", "fractional_days"]);

    // 5'. the 'now' constructor and the time-of-day conversion under injected clocks with sub-second parts
    {
        use sqldatetime::verif_hooks::set_now;
        use std::convert::TryFrom;
        let mut clocks: Vec<(i32, u32, u32, i64)> = Vec::new();
        for (y, m, d) in [(1, 1, 1), (1583, 10, 15), (1969, 12, 31), (1970, 1, 1), (2000, 2, 29), (2024, 2, 29), (9999, 12, 31)] {
            for s in [0i64, 1, 59, 3_599, 43_200, 86_399] {
                for us in [0i64, 1, 499_999, 500_000, 999_999] { clocks.push((y, m, d, s * US_SEC + us)); }
            }
        }
        let clocks = &clocks;
        let r = ctx.sweep_each("now_and_time_conversion_under_injected_clocks", "7 clock dates x 6 seconds of the day x 5 sub-second parts: OracleDate::now() and OracleDate::try_from(Time) are whole seconds in range, equal to the clock floored to its second", clocks.len() as u64, 8, |idx, acc| {
            let (y, m, d, tod) = clocks[idx as usize];
            let day = cal.day_number(y, m, d) as i64;
            set_now(Some(crate::c18::clock(y, m, d, tod)));
            acc.states += 1;
            acc.t(2);
            acc.traces += 1;
            let got = guard(|| (OracleDate::now().map(|o| o.usecs()).ok(), OracleDate::try_from(sqldatetime::Time::try_from_usecs(3_723_000_004).unwrap()).map(|o| o.usecs()).ok()));
            set_now(None);
            let want = (Some(day * US_DAY + tod / US_SEC * US_SEC), Some(day * US_DAY + 3_723_000_000));
            if tod % US_SEC != 0 { acc.cls("clock_with_sub_second_part"); acc.nontrivial += 1; } else { acc.cls("clock_on_a_whole_second"); }
            if got != Ok(want) {
                acc.fail("C16:OracleDate:now-or-time-conversion:not-the-clock-floored-to-the-second", idx, || (format!("clock = {y:04}-{m:02}-{d:02} {}; (OracleDate::now(), OracleDate::try_from(Time 01:02:03.000004))", fmt_time(tod)), format!("{want:?}"), format!("{got:?}"), String::new()));
            }
        });
        ctx.require(&r, &["clock_with_sub_second_part", "clock_on_a_whole_second"]);
    }

    // 6. raw constructor
    let mut raws: Vec<i64> = Vec::new();
    for &o in ods.iter() { for d in [0i64, 1, -1, 500_000, 999_999, -999_999, US_SEC] { raws.push(o.saturating_add(d)); } }
    raws.extend_from_slice(&[i64::MIN, i64::MAX, rg::OD_MAX as i64 + US_SEC, rg::TS_MAX as i64, rg::TS_MIN as i64 - US_SEC]);
    let raws = &raws;
    let r = ctx.sweep_each("try_from_usecs", "raw microsecond counts around the pool: a whole second inside the range is accepted unchanged; anything else is rejected or (an in-range instant with a sub-second part) floored to its second", raws.len() as u64, 256, |idx, acc| {
        let u = raws[idx as usize];
        acc.states += 1;
        acc.t(1);
        let valid = rg::od_ok(u as i128);
        match guard(|| OracleDate::try_from_usecs(u).map(|o| o.usecs())) {
            Ok(Ok(v)) if valid && v == u => acc.cls("accepted"),
            Ok(Err(_)) if !valid => { acc.cls("rejected"); acc.nontrivial += 1; }
            // "flooring sub-second input": a constructor may also accept an in-range instant with a
            // sub-second part, provided it floors it toward earlier time
            Ok(Ok(v)) if !valid && v as i128 == (u as i128).div_euclid(US_SEC as i128) * US_SEC as i128 && rg::od_ok(v as i128) && (u as i128) <= rg::TS_MAX => { acc.cls("floored"); acc.nontrivial += 1; }
            other => acc.fail("C16:OracleDate:try_from_usecs:acceptance-not-exact", idx, || (format!("OracleDate::try_from_usecs({u})"), format!("valid={valid}"), format!("{other:?}"), String::new())),
        }
    });
    ctx.require(&r, &["accepted", "rejected"]);
    // hidden state: every ordered pair of operation calls on a fresh thread against the lone call (no model involved)
    let hist_calls = crate::histpairs::calls_ops(true, &|op| { use crate::optable::Op::*; op.sig().0 == 5 || matches!(op, SToOd | SOracleSubDate | SOracleAddDays | SOracleSubDays) });
    crate::histpairs::pairwise(ctx, "C16", "oracle_date_operations", hist_calls);
    let hist_calls_full = crate::histpairs::calls_ops(false, &|op| { use crate::optable::Op::*; op.sig().0 == 5 || matches!(op, SToOd | SOracleSubDate | SOracleAddDays | SOracleSubDays) });
    crate::histpairs::pairwise_same_thread(ctx, "C16", "oracle_date_operations", hist_calls_full);
}
