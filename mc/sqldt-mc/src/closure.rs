//! BFS closure over the op table, with the assertions of one property switched on.

use crate::optable::*;
use explorer::bfs::LevelCount;
use explorer::serde_json::json;
use explorer::{Acc, Ctx, SubReport};

#[derive(Copy, Clone, Debug, PartialEq, Eq)]
pub enum Mode {
    /// C02: every produced value in range; exact result out of range => must be an error
    Range,
    /// C03: no panic (everything else ignored)
    NoPanic,
    /// C08: linear integer operations in exact lock step (Ok(exact) iff in range)
    Linear,
    /// C16: every Oracle-style date produced is a whole second in range, and operations on /
    /// yielding Oracle-style dates with an exact reference agree with it
    Oracle,
}

impl Mode {
    fn prop(self) -> &'static str {
        match self {
            Mode::Range => "C02",
            Mode::NoPanic => "C03",
            Mode::Linear => "C08",
            Mode::Oracle => "C16",
        }
    }
}

fn out_show(o: &Out) -> String {
    match o {
        Out::V(v) => format!("Ok({})", explorer::bfs::BfsState::show(v)),
        Out::I32(v) => format!("{v}"),
        Out::F64(v) => format!("{v:?}"),
        Out::Err(k) => format!("Err({k})"),
        Out::Panic => "panic".to_string(),
    }
}

/// One transition: run the real code, compare with the reference as the mode demands.
/// Returns the successor state if the call produced an in-range value.
pub fn check_transition(mode: Mode, s: &Val, op: Op, arg: Arg, acc: &mut Acc) -> Option<Val> {
    let (_, _, linear) = op.sig();
    if mode == Mode::Linear && !linear {
        // still follow the transition so that linear ops are exercised from derived states
        return match step_impl(*s, op, arg) {
            Out::V(v) if v.in_range() => Some(v),
            _ => None,
        };
    }
    acc.t(1);
    acc.traces += 1;
    let got = step_impl(*s, op, arg);
    let p = mode.prop();
    let fail = |acc: &mut Acc, kind: &str, expected: String| {
        let sig = format!("{p}:{op:?}:{kind}");
        let got = got.clone();
        acc.fail(&sig, 0, || {
            (format!("{} . {op:?}({})", explorer::bfs::BfsState::show(s), arg_show(&arg)), expected, out_show(&got),
             format!("// state {:?}, operation {op:?}, operand {arg:?}", s))
        });
    };
    if got == Out::Panic {
        acc.cls("panic");
        fail(acc, "panic", "a value or an Error".into());
        return None;
    }
    match &got {
        Out::V(_) => acc.cls("ok_value"),
        Out::Err(_) => { acc.cls("error"); acc.nontrivial += 1; }
        _ => acc.cls("scalar"),
    }
    if mode == Mode::NoPanic {
        return match got { Out::V(v) if v.in_range() => Some(v), _ => None };
    }
    let r = step_ref(*s, op, arg);
    match mode {
        Mode::Range => {
            if let Out::V(v) = &got {
                if !v.in_range() {
                    fail(acc, "returns-out-of-range-value", format!("a value inside the documented range of {} or an error", v.type_name()));
                    return None;
                }
                match r {
                    RefOut::Exact(tag, x) if !tag_in_range(tag, x) => fail(acc, "returns-value-where-exact-result-out-of-range", format!("Err (the exact result {x} is outside the range)")),
                    RefOut::MustFail => fail(acc, "returns-value-where-no-result-exists", "Err".into()),
                    _ => {}
                }
            }
        }
        Mode::Linear => match (r, &got) {
            (RefOut::Exact(tag, x), Out::V(v)) => {
                if !(tag_in_range(tag, x) && v.tag() == tag && v.raw() as i128 == x) {
                    fail(acc, if tag_in_range(tag, x) { "wrong-result" } else { "returns-value-where-exact-result-out-of-range" }, format!("exact result {x} (type tag {tag}), Ok iff in range"));
                }
            }
            (RefOut::Exact(tag, x), Out::Err(_)) => {
                if tag_in_range(tag, x) { fail(acc, "fails-where-exact-result-in-range", format!("Ok({x})")); }
            }
            (RefOut::I32(x), Out::I32(v)) => {
                if *v as i128 != x { fail(acc, "wrong-result", format!("{x}")); }
            }
            (RefOut::Unspec, _) => {}
            (exp, _) => fail(acc, "wrong-result-kind", format!("{exp:?}")),
        },
        Mode::Oracle => {
            let involves_od = s.tag() == 5 || matches!(got, Out::V(Val::Od(_)));
            if let Out::V(v @ Val::Od(_)) = &got {
                if !v.in_range() {
                    fail(acc, "oracle-date-not-whole-second-in-range", "a whole second between 0001-01-01 00:00:00 and 9999-12-31 23:59:59".into());
                    return None;
                }
            }
            // truncation / rounding boundaries are C10 / C11's subject: here only the invariant
            let unit_op = matches!(op, Op::OTrunc | Op::ORound | Op::STrunc | Op::SRound | Op::DTrunc | Op::DRound);
            if involves_od && !unit_op {
                match (r, &got) {
                    (RefOut::Exact(tag, x), Out::V(v)) => {
                        if !(tag_in_range(tag, x) && v.tag() == tag && v.raw() as i128 == x) {
                            fail(acc, "wrong-result", format!("exact result {x} (type tag {tag}), Ok iff in range"));
                        }
                    }
                    (RefOut::Exact(tag, x), Out::Err(_)) => {
                        if tag_in_range(tag, x) { fail(acc, "fails-where-exact-result-in-range", format!("Ok({x})")); }
                    }
                    (RefOut::MustFail, Out::V(_)) => fail(acc, "returns-value-where-no-result-exists", "Err".into()),
                    (RefOut::Either(tag, lo, hi, _), Out::V(v)) => {
                        if !(v.tag() == tag && (Some(v.raw() as i128) == lo || v.raw() as i128 == hi)) { fail(acc, "wrong-result", format!("{lo:?} or {hi}")); }
                    }
                    (RefOut::Either(_, _, _, fail_ok), Out::Err(_)) => { if !fail_ok { fail(acc, "fails-where-exact-result-in-range", "a value".into()); } }
                    _ => {}
                }
            }
        }
        Mode::NoPanic => {}
    }
    match got {
        Out::V(v) if v.in_range() => Some(v),
        _ => None,
    }
}

/// Run the closure to `depth` levels of expansion; at levels >= `small_from` the reduced
/// operand alphabet is used.
pub fn run_closure(ctx: &mut Ctx, name: &str, mode: Mode, depth: usize, small_from: usize, ops: &Operands, seeds: &[Val]) -> (SubReport, Vec<LevelCount>) {
    let table = ops.table();
    ctx.bound(&format!("{name}_closure"), json!({
        "seeds": seeds.len(), "depth": depth, "reduced_alphabet_from_level": small_from,
        "transitions_per_state_by_type": table.by_tag.iter().map(|v| v.len()).collect::<Vec<_>>(),
        "reduced_by_type": table.small_by_tag.iter().map(|v| v.len()).collect::<Vec<_>>(),
        "table_size": table.all.len(),
    }));
    let tb = &table;
    ctx.bfs(
        name,
        "BFS closure: seed pools of the six types x every operation of the op table x operand alphabets, deduplicated by value",
        seeds,
        depth,
        |s: &Val, level: usize, collect: bool, out: &mut Vec<(Val, u32)>, acc: &mut Acc| {
            let list = if level >= small_from { &tb.small_by_tag[s.tag() as usize] } else { &tb.by_tag[s.tag() as usize] };
            for &code in list.iter() {
                let (op, arg) = tb.all[code as usize];
                if let Some(v) = check_transition(mode, s, op, arg, acc) {
                    if collect {
                        out.push((v, code));
                    }
                }
            }
            acc.sample(|| json!({"state": explorer::bfs::BfsState::show(s), "first_transition": tb.label(list[0]), "result": format!("{:?}", step_impl(*s, tb.all[list[0] as usize].0, tb.all[list[0] as usize].1))}));
        },
        |code| tb.label(code),
    )
}
