//! C01 — day numbers and (year, month, day) form the proleptic Gregorian bijection.

use crate::common::*;
use explorer::serde_json::json;
use explorer::Ctx;
use refmodel::calendar::{month_len, Calendar};
use sqldatetime::{Date, DateTime, Error};

const EXTREME_YEARS: [i32; 8] = [i32::MIN, i32::MIN + 1, -9999, -2, 10_002, 65_535, i32::MAX - 1, i32::MAX];

pub fn run(ctx: &mut Ctx) {
    let w = world();
    let cal = &w.cal;
    ctx.rule("a case is one (operation, input) pair at a distinct sweep index; non-trivial = the input is a real in-range date (both directions of the bijection are exercised) or is rejected with a specific error kind that is compared with the invalid component");
    ctx.assume("reference: day-counting walker anchored at 1970-01-01 = day 0 = Thursday (shares no formula with date2julian/julian2date)");
    ctx.bound("day_numbers", json!("all 3,652,059 in range + 2,000 neighbours on each side"));

    // 1. every in-range day number next to the walker, plus out-of-range neighbours
    let margin: u64 = 2_000;
    let total = cal.total_days() as u64 + 2 * margin;
    let lo_n = cal.min_day as i64 - margin as i64;
    let r = ctx.sweep("days_vs_walker", "all in-range day numbers and 2000 neighbours on each side", total, 8192, |range, acc| {
        let mut walker = None;
        for idx in range {
            let n = (lo_n + idx as i64) as i32;
            acc.states += 1;
            let in_range = n >= cal.min_day && n <= cal.max_day;
            let got = guard(|| Date::try_from_days(n));
            acc.t(1);
            if !in_range {
                walker = None;
                match got {
                    Ok(Err(Error::DateOutOfRange)) => acc.cls("reject_out_of_range"),
                    other => acc.fail("C01:try_from_days:accepts-or-wrong-error-out-of-range", idx, || {
                        (format!("Date::try_from_days({n})"), "Err(DateOutOfRange)".into(), format!("{other:?}"),
                         format!("assert_eq!(Date::try_from_days({n}), Err(Error::DateOutOfRange));"))
                    }),
                }
                continue;
            }
            if walker.is_none() {
                walker = Some(cal.at(n));
            }
            let c = walker.unwrap();
            debug_assert_eq!(c.n, n);
            let date = match got {
                Ok(Ok(d)) => d,
                other => {
                    acc.fail("C01:try_from_days:rejects-in-range", idx, || {
                        (format!("Date::try_from_days({n})"), format!("Ok({:04}-{:02}-{:02})", c.y, c.m, c.d), format!("{other:?}"),
                         format!("assert!(Date::try_from_days({n}).is_ok());"))
                    });
                    let mut nx = c; nx.next(); walker = Some(nx);
                    continue;
                }
            };
            acc.nontrivial += 1;
            acc.traces += 1;
            // number -> triple
            let ex = guard(|| date.extract());
            acc.t(1);
            if ex != Ok((c.y, c.m, c.d)) {
                acc.fail("C01:extract:wrong-triple", idx, || {
                    (format!("Date::try_from_days({n}).extract()"), format!("({}, {}, {})", c.y, c.m, c.d), format!("{ex:?}"),
                     format!("assert_eq!(Date::try_from_days({n}).unwrap().extract(), ({}, {}, {}));", c.y, c.m, c.d))
                });
            }
            // triple -> number
            let back = guard(|| Date::try_from_ymd(c.y, c.m, c.d).map(|d| d.days()));
            acc.t(1);
            if back != Ok(Ok(n)) {
                acc.fail("C01:try_from_ymd:wrong-day-number", idx, || {
                    (format!("Date::try_from_ymd({}, {}, {}).days()", c.y, c.m, c.d), format!("{n}"), format!("{back:?}"),
                     format!("assert_eq!(Date::try_from_ymd({}, {}, {}).unwrap().days(), {n});", c.y, c.m, c.d))
                });
            }
            if date.days() != n {
                acc.fail("C01:days:not-identity", idx, || {
                    (format!("Date::try_from_days({n}).days()"), format!("{n}"), format!("{}", date.days()), String::new())
                });
            }
            // accessors
            let acc3 = guard(|| (date.year(), date.month(), date.day(), DateTime::date(&date), date.hour(), date.minute(), date.second()));
            acc.t(1);
            if acc3 != Ok((Some(c.y), Some(c.m as i32), Some(c.d as i32), Some(date), None, None, None)) {
                acc.fail("C01:accessors:disagree", idx, || {
                    (format!("year/month/day/date/hour/minute/second of day {n}"), format!("{}-{}-{}, no time fields", c.y, c.m, c.d), format!("{acc3:?}"), String::new())
                });
            }
            // weekday: +1 per day, day 0 a Thursday
            let wd = guard(|| date.day_of_week() as u32);
            acc.t(1);
            if wd != Ok(c.wd) {
                acc.fail("C01:day_of_week:wrong", idx, || {
                    (format!("Date::try_from_days({n}).day_of_week()"), format!("{} (1=Sunday)", c.wd), format!("{wd:?}"),
                     format!("assert_eq!(Date::try_from_days({n}).unwrap().day_of_week() as u32, {});", c.wd))
                });
            }
            // the public unchecked constructors, called with their precondition satisfied
            let unchecked = guard(|| unsafe { (Date::from_ymd_unchecked(c.y, c.m, c.d).days(), Date::from_days_unchecked(n).extract()) });
            acc.t(1);
            if unchecked != Ok((n, (c.y, c.m, c.d))) {
                acc.fail("C01:unchecked-constructors:wrong-for-valid-input", idx, || {
                    (format!("Date::from_ymd_unchecked({}, {}, {}).days() / Date::from_days_unchecked({n}).extract()", c.y, c.m, c.d), format!("({n}, ({}, {}, {}))", c.y, c.m, c.d), format!("{unchecked:?}"), String::new())
                });
            }
            // is_valid
            if !Date::is_valid(c.y, c.m, c.d) {
                acc.fail("C01:is_valid:rejects-real-date", idx, || {
                    (format!("Date::is_valid({}, {}, {})", c.y, c.m, c.d), "true".into(), "false".into(), String::new())
                });
            }
            // ordering: consecutive day numbers are strictly increasing dates and triples
            if n > cal.min_day {
                if let Ok(Ok(prev)) = guard(|| Date::try_from_days(n - 1)) {
                    let pt = prev.extract();
                    let ok = prev < date && date > prev && prev != date && prev.cmp(&date) == std::cmp::Ordering::Less
                        && pt < (c.y, c.m, c.d) && date == date && date.cmp(&date) == std::cmp::Ordering::Equal;
                    acc.t(1);
                    if !ok {
                        acc.fail("C01:ordering:consecutive-days-not-increasing", idx, || {
                            (format!("Date({}) vs Date({n})", n - 1), "strictly increasing dates and triples".into(),
                             format!("cmp={:?} triples {:?} vs {:?}", prev.cmp(&date), pt, (c.y, c.m, c.d)), String::new())
                        });
                    }
                }
            }
            if n == 0 {
                acc.sample(|| json!({"day_number": 0, "walker": [c.y, c.m, c.d], "weekday": c.wd, "impl_extract": format!("{:?}", ex)}));
            }
            acc.cls("in_range_roundtrip");
            let mut nx = c;
            nx.next();
            walker = Some(nx);
        }
    });
    ctx.require(&r, &["in_range_roundtrip", "reject_out_of_range"]);
    ctx.add_sample(json!({"sub": "days_vs_walker", "case": {"day_number": cal.min_day, "triple": [1, 1, 1]}}));

    // 2. raw i32 day numbers: extremes (quick) / all 2^32 (thorough)
    {
        ctx.bound("raw_i32", json!("all 2^32 values"));
        let r = ctx.sweep("raw_i32_all", "every i32 through try_from_days", 1u64 << 32, 1 << 22, |range, acc| {
            let mut ok = 0u64;
            let mut rej = 0u64;
            for idx in range.clone() {
                let n = (idx as i64 + i32::MIN as i64) as i32;
                let expect_ok = n >= cal.min_day && n <= cal.max_day;
                match Date::try_from_days(n) {
                    Ok(d) if expect_ok && d.days() == n => ok += 1,
                    Err(Error::DateOutOfRange) if !expect_ok => rej += 1,
                    other => acc.fail("C01:try_from_days:raw-i32-acceptance", idx, || {
                        (format!("Date::try_from_days({n})"), if expect_ok { format!("Ok(day {n})") } else { "Err(DateOutOfRange)".into() }, format!("{other:?}"),
                         format!("let _ = Date::try_from_days({n});"))
                    }),
                }
            }
            acc.states += range.end - range.start;
            acc.t(range.end - range.start);
            acc.nontrivial += ok;
            acc.cls_n("accepted", ok);
            acc.cls_n("rejected", rej);
        });
        ctx.require(&r, &["accepted", "rejected"]);
    }
    {
        ctx.bound("raw_i32_extremes", json!("extremes and range ends +/- 3"));
        let mut vals: Vec<i32> = vec![i32::MIN, i32::MIN + 1, -1_000_000_000, -1, 0, 1, 1_000_000_000, i32::MAX - 1, i32::MAX];
        for d in -3..=3 {
            vals.push(cal.min_day + d);
            vals.push(cal.max_day + d);
        }
        for k in 0..64u64 {
            vals.push(splitmix(ctx.seed ^ (k << 8)) as i32);
        }
        let vals = &vals;
        let r = ctx.sweep_each("raw_i32_extremes", "extreme and boundary i32 day numbers (+64 seed-derived)", vals.len() as u64, 64, |idx, acc| {
            let n = vals[idx as usize];
            let expect_ok = n >= cal.min_day && n <= cal.max_day;
            acc.states += 1;
            acc.t(1);
            match guard(|| Date::try_from_days(n)) {
                Ok(Ok(d)) if expect_ok && d.days() == n => { acc.cls("accepted"); acc.nontrivial += 1 }
                Ok(Err(Error::DateOutOfRange)) if !expect_ok => acc.cls("rejected"),
                other => acc.fail("C01:try_from_days:raw-i32-acceptance", idx, || {
                    (format!("Date::try_from_days({n})"), if expect_ok { format!("Ok(day {n})") } else { "Err(DateOutOfRange)".into() }, format!("{other:?}"),
                     format!("let _ = Date::try_from_days({n});"))
                }),
            }
        });
        ctx.require(&r, &["accepted", "rejected"]);
    }

    // 3. (year, month, day) triples
    let (ylo, yhi) = if ctx.thorough() { (-400, 10_400) } else { (-1, 10_001) };
    let mut years: Vec<i32> = (ylo..=yhi).collect();
    years.extend_from_slice(&EXTREME_YEARS);
    let mut months: Vec<u32> = (0..=14).collect();
    months.push(u32::MAX);
    months.push(u32::MAX - 1);
    months.push(1 << 31);
    let mut daysv: Vec<u32> = (0..=33).collect();
    daysv.push(u32::MAX);
    daysv.push(u32::MAX - 1);
    daysv.push(1 << 31);
    daysv.push(256 + 1);
    daysv.push(65_536 + 28);
    ctx.bound("triples", json!({"years": format!("{ylo}..={yhi} + {EXTREME_YEARS:?}"), "months": "0..=14 + u32 extremes", "days": "0..=33 + u32 extremes + 257 + 65564"}));
    let (years, months, daysv) = (&years, &months, &daysv);
    let per_year = (months.len() * daysv.len()) as u64;
    let r = ctx.sweep("triples", "all (year, month, day) triples of the grid", years.len() as u64 * per_year, per_year * 16, |range, acc| {
        for idx in range {
            let y = years[(idx / per_year) as usize];
            let m = months[((idx % per_year) / daysv.len() as u64) as usize];
            let d = daysv[(idx % daysv.len() as u64) as usize];
            acc.states += 1;
            let real = Calendar::is_real_date(y as i64, m as i64, d as i64);
            let got = guard(|| Date::try_from_ymd(y, m, d));
            let valid = guard(|| Date::is_valid(y, m, d));
            acc.t(2);
            if valid != Ok(real) {
                acc.fail("C01:is_valid:disagrees-with-calendar", idx, || {
                    (format!("Date::is_valid({y}, {m}, {d})"), format!("{real}"), format!("{valid:?}"),
                     format!("assert_eq!(Date::is_valid({y}, {m}, {d}), {real});"))
                });
            }
            match got {
                Ok(Ok(date)) => {
                    if !real {
                        acc.fail("C01:try_from_ymd:accepts-unreal-date", idx, || {
                            (format!("Date::try_from_ymd({y}, {m}, {d})"), "Err(..)".into(), format!("Ok(day {})", date.days()),
                             format!("assert!(Date::try_from_ymd({y}, {m}, {d}).is_err());"))
                        });
                    } else {
                        let n = cal.day_number(y, m, d);
                        acc.nontrivial += 1;
                        acc.cls("accepted");
                        if date.days() != n || date.extract() != (y, m, d) {
                            acc.fail("C01:try_from_ymd:wrong-day-number", idx, || {
                                (format!("Date::try_from_ymd({y}, {m}, {d})"), format!("day {n}"), format!("day {} extract {:?}", date.days(), date.extract()),
                                 format!("assert_eq!(Date::try_from_ymd({y}, {m}, {d}).unwrap().days(), {n});"))
                            });
                        }
                    }
                }
                Ok(Err(e)) => {
                    if real {
                        acc.fail("C01:try_from_ymd:rejects-real-date", idx, || {
                            (format!("Date::try_from_ymd({y}, {m}, {d})"), "Ok".into(), format!("Err({e:?})"),
                             format!("assert!(Date::try_from_ymd({y}, {m}, {d}).is_ok());"))
                        });
                    } else {
                        // the error kind must match an invalid component
                        let year_bad = !(1..=9999).contains(&y);
                        let month_bad = !(1..=12).contains(&m);
                        let day_bad = !(1..=31).contains(&d);
                        let date_bad = !month_bad && !day_bad && {
                            let l = if year_bad { if m == 2 { 28 } else { month_len(2001, m) } } else { month_len(y, m) };
                            d > l
                        };
                        let ok = match e {
                            Error::DateOutOfRange => year_bad,
                            Error::InvalidMonth => month_bad,
                            Error::InvalidDay => day_bad,
                            Error::InvalidDate => date_bad,
                            _ => false,
                        };
                        acc.nontrivial += 1;
                        acc.cls(errk(&e));
                        if !ok {
                            acc.fail("C01:try_from_ymd:error-kind-matches-no-invalid-component", idx, || {
                                (format!("Date::try_from_ymd({y}, {m}, {d})"),
                                 format!("an error naming an invalid component (year_bad={year_bad} month_bad={month_bad} day_bad={day_bad} date_bad={date_bad})"),
                                 format!("Err({e:?})"), format!("let _ = Date::try_from_ymd({y}, {m}, {d});"))
                            });
                        }
                    }
                }
                Err(()) => acc.fail("C01:try_from_ymd:panic", idx, || {
                    (format!("Date::try_from_ymd({y}, {m}, {d})"), "a value or an Error".into(), "panic".into(),
                     format!("let _ = Date::try_from_ymd({y}, {m}, {d});"))
                }),
            }
            if y == 2024 && m == 2 && d == 29 {
                acc.want_sample = true;
                acc.sample(|| json!({"triple": [y, m, d], "real": real, "impl": format!("{:?}", Date::try_from_ymd(y, m, d).map(|d| d.days()))}));
                acc.want_sample = false;
            }
        }
    });
    ctx.require(&r, &["accepted", "DateOutOfRange", "InvalidMonth", "InvalidDay", "InvalidDate"]);

    crate::histpairs::pairwise(ctx, "C01", "date_constructors_and_accessors", crate::histpairs::calls_date());
    // hidden per-thread state: two-step histories from the initial state
    crate::history::two_step_histories(ctx, "C01", crate::history::Family::Accessors);
    crate::history::alternating_with_anchor(ctx, "C01", crate::history::Family::Accessors);
    crate::history::first_call_in_fresh_process(ctx, "C01", crate::history::Family::Accessors);
}
