//! C03 — no safe public call panics, whatever its arguments.  Runs in both build profiles:
//! `fast` (what users ship) and `checked` (overflow checks and debug assertions on); the
//! `checked` half is executed by a child process of the same harness built with that profile.

use crate::c19::PIC_ALPHABET;
use crate::closure::*;
use crate::common::*;
use crate::optable::*;
use crate::probe::*;
use crate::units::*;
use explorer::serde_json::json;
use explorer::strings;
use explorer::{Acc, Ctx};
use refmodel::picture::{Ty, ALL_TYPES};
use sqldatetime::{Date, DateTime, Formatter, IntervalDT, IntervalYM, OracleDate, Time, Timestamp};
use std::fmt::Write;

pub const INPUT_ALPHABET: [&[u8]; 26] = [
    b"0", b"1", b"2", b"9", b"+", b"-", b" ", b"\t", b":", b".", b",", b"/", b"\\", b";", b"A", b"a", b"M", b"p", b"T", b"J", b"u", b"n", b"x", "\u{e9}".as_bytes(), b"\x7f", b"\0",
];

pub const TOKEN_KINDS: [&str; 34] = [
    "YYYY", "YYY", "YY", "Y", "MM", "MON", "MONTH", "DD", "DDD", "D", "DAY", "DY", "HH", "HH12", "HH24", "MI", "SS", "FF", "FF3", "FF9", "AM", "A.M.", "p.m.", "W", "WW", "T", "-", ":", "/",
    "\\", ",", ".", ";", " ",
];

fn probes() -> Vec<TV> {
    // per type: a value with pairwise distinct fields, the zero / first value and an extreme
    // (table indices 0 and maximal, sign handling, whole-year / whole-day intervals)
    let w = world();
    let tmin = w.cal.min_day as i64 * US_DAY;
    let tmax = (w.cal.max_day as i64 + 1) * US_DAY - 1;
    vec![
        TV { ty: Ty::Date, raw: w.cal.day_number(2021, 4, 22) as i64 },
        TV { ty: Ty::Date, raw: w.cal.min_day as i64 },
        TV { ty: Ty::Date, raw: w.cal.max_day as i64 },
        TV { ty: Ty::Time, raw: 13 * US_HOUR + 7 * US_MIN + 9 * US_SEC + 123_456 },
        TV { ty: Ty::Time, raw: 0 },
        TV { ty: Ty::Time, raw: US_DAY - 1 },
        probe_ts(),
        TV { ty: Ty::Timestamp, raw: tmin },
        TV { ty: Ty::Timestamp, raw: tmax },
        TV { ty: Ty::IntervalYM, raw: -(12 * 1234 + 5) },
        TV { ty: Ty::IntervalYM, raw: 0 },
        TV { ty: Ty::IntervalYM, raw: 36 },
        TV { ty: Ty::IntervalYM, raw: 2_136_000_000 },
        TV { ty: Ty::IntervalDT, raw: 45 * US_DAY + 13 * US_HOUR + 7 * US_MIN + 9 * US_SEC + 123_456 },
        TV { ty: Ty::IntervalDT, raw: 0 },
        TV { ty: Ty::IntervalDT, raw: -100_000_000 * US_DAY },
        TV { ty: Ty::OracleDate, raw: probe_ts().raw / US_SEC * US_SEC },
        TV { ty: Ty::OracleDate, raw: tmin },
        TV { ty: Ty::OracleDate, raw: tmax - 999_999 },
    ]
}

/// Everything a picture string can be fed to, for all six types; only "did it unwind" matters.
fn exercise_picture(acc: &mut Acc, idx: u64, pic: &str, probes: &[TV], inputs: &[&str], p: &str) {
    acc.t(1);
    let fmt = match guard(|| Formatter::try_new(pic)) {
        Ok(Ok(f)) => f,
        Ok(Err(_)) => { acc.cls("picture_rejected"); return; }
        Err(()) => { acc.fail(&format!("C03:{p}:Formatter::try_new:panic"), idx, || (format!("Formatter::try_new({pic:?})"), "a Formatter or an Error".into(), "panic".into(), format!("let _ = Formatter::try_new({pic:?});"))); return; }
    };
    acc.cls("picture_accepted");
    acc.nontrivial += 1;
    for tv in probes {
        acc.t(1);
        acc.traces += 1;
        let text = match guard(|| tv.format_with(&fmt)) {
            Ok(Ok(t)) => Some(t),
            Ok(Err(_)) => None,
            Err(()) => { acc.fail(&format!("C03:{p}:format:panic"), idx, || (format!("format {} with {pic:?}", tv.show()), "text or an Error".into(), "panic".into(), String::new())); None }
        };
        let mut parse_one = |acc: &mut Acc, input: &str| {
            acc.t(1);
            if guard(|| TV::parse_with(tv.ty, input, &fmt)).is_err() {
                acc.fail(&format!("C03:{p}:parse:panic"), idx, || (format!("{:?}::parse({input:?}, {pic:?})", tv.ty), "a value or an Error".into(), "panic".into(), format!("// {:?}::parse({input:?}, {pic:?})", tv.ty)));
            }
        };
        for i in inputs { parse_one(acc, i); }
        if let Some(t) = &text { parse_one(acc, t); }
    }
}

/// Parse one input under one compiled picture for all six types.
#[inline]
fn parse_all_types(acc: &mut Acc, idx: u64, fmt: &Formatter, pic: &str, input: &str, p: &str) {
    for ty in ALL_TYPES {
        acc.t(1);
        match guard(|| TV::parse_with(ty, input, fmt)) {
            Ok(Ok(_)) => acc.cls_n("parsed", 1),
            Ok(Err(_)) => acc.cls_n("parse_error", 1),
            Err(()) => acc.fail(&format!("C03:{p}:parse:panic"), idx, || (format!("{ty:?}::parse({input:?}, {pic:?})"), "a value or an Error".into(), "panic".into(), format!("// {ty:?}::parse({input:?}, {pic:?})"))),
        }
    }
}

pub fn run(ctx: &mut Ctx) {
    let w = world();
    let cal = &w.cal;
    let profile = ctx.profile.clone();
    let p = profile.as_str();
    let pre = if p == "checked" { "checked/" } else { "" };
    let thorough = ctx.thorough();
    ctx.rule("a case is one call (or one picture with all its format / parse calls) at a distinct enumeration index; the oracle is 'returns normally'; non-trivial = the call reached the body of the operation (picture accepted, or an error was returned from inside a field parser)");
    ctx.assume("every call is wrapped in catch_unwind; From<usize> for WeekDay/Month (documented # Panics, not one of the six types) are outside the property's quantifier; std's to_string() panics by Display's contract on a formatting error, the property is worded around the sink form and that is what is exercised");
    ctx.bound("profiles", json!("fast in this process; checked (overflow-checks + debug-assertions) in a child process of the same harness"));

    // ---- scalar side: the whole op-table closure (incl. NaN / infinities / extreme integers)
    let ops = Operands::standard(ctx.seed, true);
    let sd = seeds(ctx.seed);
    let (r, _) = run_closure(ctx, &format!("{pre}scalar_closure"), Mode::NoPanic, 3, 99, &ops, &sd);
    ctx.require(&r, &["ok_value", "error"]);

    // extreme scalar constructor arguments
    let u32s: Vec<u32> = vec![0, 1, 11, 12, 13, 23, 24, 31, 32, 59, 60, 255, 256, 999_999, 1_000_000, 99_999_999, 100_000_000, 178_000_000, 357_913_941, 357_913_942, 1 << 31, u32::MAX - 1, u32::MAX];
    let i32s: Vec<i32> = vec![i32::MIN, i32::MIN + 1, -9999, -1, 0, 1, 9999, 10_000, i32::MAX - 1, i32::MAX];
    let i64s: Vec<i64> = vec![i64::MIN, i64::MIN + 1, -8_640_000_000_000_000_000, -1, 0, 1, 86_399_999_999, 86_400_000_000, 8_640_000_000_000_000_000, i64::MAX - 1, i64::MAX];
    let (u32r, i32r, i64r) = (&u32s, &i32s, &i64s);
    let nu = u32s.len() as u64;
    let r = ctx.sweep_each(&format!("{pre}extreme_constructor_arguments"), "u32 / i32 / i64 extremes through every checked constructor and validity predicate", nu * nu * nu, 512, |idx, acc| {
        let a = u32r[(idx % nu) as usize];
        let b = u32r[((idx / nu) % nu) as usize];
        let c = u32r[(idx / nu / nu) as usize];
        acc.states += 1;
        acc.t(12);
        let r = guard(|| {
            let mut ok = 0u32;
            for &y in i32r.iter() {
                ok += Date::try_from_ymd(y, a, b).is_ok() as u32 + Date::is_valid(y, b, c) as u32 + Date::try_from_days(y).is_ok() as u32 + IntervalYM::try_from_months(y).is_ok() as u32;
            }
            ok += Time::try_from_hms(a, b, c, a).is_ok() as u32 + Time::is_valid(c, b, a, b) as u32;
            ok += IntervalYM::try_from_ym(a, b).is_ok() as u32 + IntervalYM::is_valid_ym(b, c) as u32;
            ok += IntervalDT::try_from_dhms(a, b, c, a, b).is_ok() as u32 + IntervalDT::is_valid(c, a, b, c, a) as u32;
            ok += Date::try_from_days(0).unwrap().and_hms(a, b, c, c).is_ok() as u32;
            for &x in i64r.iter() {
                ok += Time::try_from_usecs(x).is_ok() as u32 + Timestamp::try_from_usecs(x).is_ok() as u32 + IntervalDT::try_from_usecs(x).is_ok() as u32 + OracleDate::try_from_usecs(x).is_ok() as u32;
            }
            ok
        });
        match r { Ok(_) => acc.cls("returned"), Err(()) => acc.fail(&format!("C03:{p}:constructor:panic"), idx, || (format!("checked constructors with ({a}, {b}, {c})"), "values or Errors".into(), "panic".into(), String::new())) }
    });
    ctx.require(&r, &["returned"]);

    // flat: all dates through accessors, trunc/round and the date tokens; all seconds / µs through the time tokens
    let total = cal.total_days() as u64;
    let crit = crit_times();
    let crit_r = &crit;
    let r = ctx.sweep(&format!("{pre}all_dates_accessors_units_tokens"), "all dates: accessors, 24 trunc/round + last day on Date / Timestamp / OracleDate at two rotating critical times, formatting with every date token", total, 2048, |range, acc| {
        let fd = Formatter::try_new("YYYY YYY YY Y MM MON Month DD DDD D DAY dy W WW").unwrap();
        let ft = Formatter::try_new("YYYY-MM-DD HH24:MI:SS.FF9 HH12 A.M. Day").unwrap();
        for idx in range {
            let n = cal.min_day + idx as i32;
            acc.states += 1;
            acc.t(60);
            let r = guard(|| {
                let d = Date::try_from_days(n).unwrap();
                let mut s = String::with_capacity(128);
                let _ = (d.extract(), d.year(), d.month(), d.day(), d.hour(), d.second(), d.day_of_week() as u32, d.last_day_of_month());
                let _ = fd.format(d, &mut s);
                for j in 0..2usize {
                    let t = crit_r[(idx as usize * 2 + j * 17) % crit_r.len()];
                    let ts = Timestamp::new(d, Time::try_from_usecs(t).unwrap());
                    let od = OracleDate::from(ts);
                    let _ = (ts.extract(), ts.year(), ts.hour(), ts.minute(), ts.second(), DateTime::date(&ts), ts.last_day_of_month(), od.extract(), od.last_day_of_month(), od.second());
                    for u in 0..12 {
                        let _ = (trunc_date(u, d).is_ok(), round_date(u, d).is_ok(), trunc_ts(u, ts).is_ok(), round_ts(u, ts).is_ok(), trunc_od(u, od).is_ok(), round_od(u, od).is_ok());
                    }
                    s.clear();
                    let _ = ft.format(ts, &mut s);
                    s.clear();
                    let _ = fd.format(od, &mut s);
                }
            });
            match r { Ok(()) => acc.cls("returned"), Err(()) => acc.fail(&format!("C03:{p}:date-sweep:panic"), idx, || (format!("accessors / trunc / round / format on day {n}"), "no panic".into(), "panic".into(), String::new())) }
        }
    });
    ctx.require(&r, &["returned"]);
    let r = ctx.sweep(&format!("{pre}all_seconds_and_micros_time_tokens"), "all 86,400 seconds and all 1,000,000 microseconds: Time accessors and formatting with every time / fraction token (Time, IntervalDT)", 86_400 + 1_000_000, 4096, |range, acc| {
        let f = Formatter::try_new("HH HH12 HH24 MI SS FF FF1 FF2 FF3 FF4 FF5 FF6 FF7 FF8 FF9 AM p.m.").unwrap();
        let fi = Formatter::try_new("DD HH24 MI SS FF FF1 FF7 FF9").unwrap();
        for idx in range {
            let us = if idx < 86_400 { idx as i64 * US_SEC } else { 12 * US_HOUR + (idx - 86_400) as i64 };
            acc.states += 1;
            acc.t(6);
            let r = guard(|| {
                let t = Time::try_from_usecs(us).unwrap();
                let mut s = String::with_capacity(128);
                let _ = (t.extract(), t.hour(), t.minute(), t.second());
                let _ = f.format(t, &mut s);
                s.clear();
                let iv = IntervalDT::try_from_usecs(-us - 1).unwrap();
                let _ = (iv.extract(), iv.day(), iv.hour(), iv.minute(), iv.second());
                let _ = fi.format(iv, &mut s);
            });
            match r { Ok(()) => acc.cls("returned"), Err(()) => acc.fail(&format!("C03:{p}:time-sweep:panic"), idx, || (format!("accessors / format at {us} µs"), "no panic".into(), "panic".into(), String::new())) }
        }
    });
    ctx.require(&r, &["returned"]);

    // ---- text side
    let pr = probes();
    let pr_r = &pr;

    // 1. every picture string up to the length bound
    let max_len: u32 = if thorough { 6 } else { 5 };
    let k = PIC_ALPHABET.len() as u64;
    let n = strings::count_upto(k, max_len);
    ctx.bound("picture_strings", json!(format!("every string of length 0..={max_len} over the 40-symbol picture alphabet, each compiled, formatted for a probe value of each of the six types and parsed from \"\", \"1\" and the formatted text")));
    let r = ctx.sweep(&format!("{pre}all_short_pictures"), "every picture string up to the length bound: try_new, format x 6 types, parse x 6 types", n, 1 << 14, |range, acc| {
        let mut sym = Vec::new();
        let mut buf = Vec::new();
        strings::decode(range.start, k, max_len, &mut sym);
        let cnt = range.end - range.start;
        for idx in range {
            strings::render(&sym, &PIC_ALPHABET, &mut buf);
            if let Ok(s) = std::str::from_utf8(&buf) {
                exercise_picture(acc, idx, s, pr_r, &["", "1"], p);
            }
            strings::increment(&mut sym, k as u8);
        }
        acc.states += cnt;
    });
    ctx.require(&r, &["picture_accepted", "picture_rejected"]);

    // 2. every short input under every single token and every token pair
    let (l1, l2): (u32, u32) = if thorough { (5, 4) } else { (4, 3) };
    let ka = INPUT_ALPHABET.len() as u64;
    let n1 = strings::count_upto(ka, l1);
    let n2 = strings::count_upto(ka, l2);
    let nt = TOKEN_KINDS.len() as u64;
    ctx.bound("input_strings", json!(format!("every input of length 0..={l1} over a 26-symbol input alphabet under each of {nt} single-token pictures, and of length 0..={l2} under each of {} ordered token pairs, for all six types", nt * nt)));
    let r = ctx.sweep(&format!("{pre}inputs_x_single_tokens"), "every short input string x every single-token picture x 6 types", nt * n1, n1.min(1 << 13), |range, acc| {
        let mut sym = Vec::new();
        let mut buf = Vec::new();
        let mut cur_tok = u64::MAX;
        let mut fmt: Option<Formatter> = None;
        for idx in range {
            let t = idx / n1;
            if t != cur_tok {
                cur_tok = t;
                fmt = Formatter::try_new(TOKEN_KINDS[t as usize]).ok();
            }
            strings::decode(idx % n1, ka, l1, &mut sym);
            strings::render(&sym, &INPUT_ALPHABET, &mut buf);
            acc.states += 1;
            if let (Some(f), Ok(s)) = (&fmt, std::str::from_utf8(&buf)) {
                acc.nontrivial += 1;
                parse_all_types(acc, idx, f, TOKEN_KINDS[t as usize], s, p);
            }
        }
    });
    ctx.require(&r, &["parsed", "parse_error"]);
    let r = ctx.sweep(&format!("{pre}inputs_x_token_pairs"), "every short input string x every ordered pair of tokens as the picture x 6 types", nt * nt * n2, n2.min(1 << 13), |range, acc| {
        let mut sym = Vec::new();
        let mut buf = Vec::new();
        let mut cur = u64::MAX;
        let mut fmt: Option<Formatter> = None;
        let mut pic = String::new();
        for idx in range {
            let t = idx / n2;
            if t != cur {
                cur = t;
                pic = format!("{}{}", TOKEN_KINDS[(t / nt) as usize], TOKEN_KINDS[(t % nt) as usize]);
                fmt = Formatter::try_new(&pic).ok();
            }
            strings::decode(idx % n2, ka, l2, &mut sym);
            strings::render(&sym, &INPUT_ALPHABET, &mut buf);
            acc.states += 1;
            if let (Some(f), Ok(s)) = (&fmt, std::str::from_utf8(&buf)) {
                acc.nontrivial += 1;
                parse_all_types(acc, idx, f, &pic, s, p);
            }
        }
    });
    ctx.require(&r, &["parsed", "parse_error"]);

    // 3. length families: every length 0..=600
    let maxl: usize = 600;
    let unit: [&str; 9] = [" ", "1", "-", "\u{e9}", "A", "9", "Y", "\u{4e2d}", "\u{1f600}"];
    let fixed_pics: [&str; 16] = ["YYYY", "DD", "FF", "MONTH", "DAY", " ", "YYYY-MM-DD HH24:MI:SS.FF", "D", "HH12 AM", "-", ";", "/", "T", ":", "YYYY/MM", "DD,MON"];
    ctx.bound("length_families", json!(format!("runs of each of {unit:?} of every length 0..={maxl} as picture, as input under {fixed_pics:?}, and (blanks) embedded between two tokens; pictures of 1..=40 repetitions of every token kind")));
    let r = ctx.sweep_each(&format!("{pre}length_families"), "runs of every length 0..=600 of blanks / digits / hyphens / multi-byte / letters as picture and as input", (maxl as u64 + 1) * unit.len() as u64, 8, |idx, acc| {
        let len = (idx / unit.len() as u64) as usize;
        let u = unit[(idx % unit.len() as u64) as usize];
        let run = u.repeat(len);
        acc.states += 1;
        exercise_picture(acc, idx, &run, pr_r, &["", &run], p);
        if u == " " {
            exercise_picture(acc, idx, &format!("YYYY{run}MM"), pr_r, &["2021 04", &format!("2021{run}04")], p);
            exercise_picture(acc, idx, &format!("HH24:{run}:MI"), pr_r, &["13::07"], p);
        }
        for fp in fixed_pics.iter() {
            if let Ok(f) = Formatter::try_new(fp) {
                parse_all_types(acc, idx, &f, fp, &run, p);
                parse_all_types(acc, idx, &f, fp, &format!("2021{run}"), p);
                parse_all_types(acc, idx, &f, fp, &format!("{run}1"), p);
                // multi-byte runs shifted by one, two and three ASCII bytes (every alignment of a
                // character against a byte offset)
                if u.len() > 1 {
                    for pre in ["a", "ab", "abc"] {
                        parse_all_types(acc, idx, &f, fp, &format!("{pre}{run}"), p);
                    }
                }
            }
        }
    });
    ctx.require(&r, &["picture_accepted", "picture_rejected", "parse_error"]);
    let r = ctx.sweep_each(&format!("{pre}token_count_boundary"), "pictures of 1..=40 repetitions of every token kind (with and without separators)", nt * 40, 8, |idx, acc| {
        let t = TOKEN_KINDS[(idx / 40) as usize];
        let reps = (idx % 40) as usize + 1;
        acc.states += 1;
        exercise_picture(acc, idx, &t.repeat(reps), pr_r, &[""], p);
        exercise_picture(acc, idx, &format!("{t};").repeat(reps), pr_r, &[""], p);
    });
    ctx.require(&r, &["picture_accepted", "picture_rejected"]);

    // 4. the Display path: an inapplicable field is an error, not a panic
    let np = pr.len() as u64;
    let r = ctx.sweep_each(&format!("{pre}display_sink"), "write!(sink, \"{}\", value.format(token)?) for every (probe value of each type, token kind) pair", nt * np, 8, |idx, acc| {
        let t = TOKEN_KINDS[(idx / np) as usize];
        let tv = &pr_r[(idx % np) as usize];
        acc.states += 1;
        acc.t(1);
        acc.traces += 1;
        let r = guard(|| {
            let mut sink = String::new();
            match tv.ty {
                Ty::Date => Date::try_from_days(tv.raw as i32).unwrap().format(t).map(|d| write!(sink, "{}", d).is_ok()),
                Ty::Time => Time::try_from_usecs(tv.raw).unwrap().format(t).map(|d| write!(sink, "{}", d).is_ok()),
                Ty::Timestamp => Timestamp::try_from_usecs(tv.raw).unwrap().format(t).map(|d| write!(sink, "{}", d).is_ok()),
                Ty::IntervalYM => IntervalYM::try_from_months(tv.raw as i32).unwrap().format(t).map(|d| write!(sink, "{}", d).is_ok()),
                Ty::IntervalDT => IntervalDT::try_from_usecs(tv.raw).unwrap().format(t).map(|d| write!(sink, "{}", d).is_ok()),
                Ty::OracleDate => OracleDate::try_from_usecs(tv.raw).unwrap().format(t).map(|d| write!(sink, "{}", d).is_ok()),
            }
        });
        match r {
            Ok(Ok(true)) => acc.cls("written"),
            Ok(Ok(false)) => { acc.cls("sink_error"); acc.nontrivial += 1; }
            Ok(Err(_)) => acc.cls("picture_error"),
            Err(()) => acc.fail(&format!("C03:{p}:display-sink:panic"), idx, || (format!("write!(sink, \"{{}}\", {}.format({t:?})?)", tv.show()), "Ok or Err(fmt::Error)".into(), "panic".into(), String::new())),
        }
    });
    ctx.require(&r, &["written", "sink_error"]);

    // the Display value with width / precision / fill / alignment specs
    let r = ctx.sweep_each(&format!("{pre}display_format_specs"), "value.format(picture)? written with format specs {:.0} {:.3} {:.40} {:>40} {:<5} {:^31.7} {:*>12.2} for every probe value x a few pictures", np * 4, 8, |idx, acc| {
        let tv = &pr_r[(idx % np) as usize];
        let pic = ["YYYY-MM-DD", "HH24:MI:SS.FF", "YYYY-MM", "DD HH24:MI"][(idx / np) as usize];
        acc.states += 1;
        acc.t(7);
        let r = guard(|| {
            let mut sink = String::new();
            macro_rules! go { ($v:expr) => {{ match $v.format(pic) { Ok(d) => { let _ = write!(sink, "{:.0}|{:.3}|{:.40}|{:>40}|{:<5}|{:^31.7}|{:*>12.2}", d, d, d, d, d, d, d); true } Err(_) => false } }}; }
            match tv.ty {
                Ty::Date => go!(Date::try_from_days(tv.raw as i32).unwrap()),
                Ty::Time => go!(Time::try_from_usecs(tv.raw).unwrap()),
                Ty::Timestamp => go!(Timestamp::try_from_usecs(tv.raw).unwrap()),
                Ty::IntervalYM => go!(IntervalYM::try_from_months(tv.raw as i32).unwrap()),
                Ty::IntervalDT => go!(IntervalDT::try_from_usecs(tv.raw).unwrap()),
                Ty::OracleDate => go!(OracleDate::try_from_usecs(tv.raw).unwrap()),
            }
        });
        match r { Ok(_) => acc.cls("returned"), Err(()) => acc.fail(&format!("C03:{p}:display-format-spec:panic"), idx, || (format!("write!(sink, \"{{:.40}} ...\", {}.format({pic:?})?)", tv.show()), "Ok or Err".into(), "panic".into(), String::new())) }
    });
    ctx.require(&r, &["returned"]);

    // over-long pictures whose 37th token is followed by blanks and a multi-byte character at every offset
    let r = ctx.sweep_each(&format!("{pre}long_pictures_with_multibyte_tail"), "37..=41 hyphens + 0..=80 blanks + a 2-, 3- or 4-byte character: every byte alignment of the character against the first 130 bytes", 5 * 81 * 3, 8, |idx, acc| {
        let h = 37 + (idx / (81 * 3)) as usize;
        let b = ((idx / 3) % 81) as usize;
        let ch = ["\u{e9}", "\u{4e2d}", "\u{1f600}"][(idx % 3) as usize];
        let pic = format!("{}{}{}x", "-".repeat(h), " ".repeat(b), ch);
        acc.states += 1;
        exercise_picture(acc, idx, &pic, pr_r, &[""], p);
        exercise_picture(acc, idx, &format!("{}{}{}", "MI:".repeat(h / 2), " ".repeat(b), ch), pr_r, &[""], p);
    });
    ctx.require(&r, &["picture_rejected"]);

    // 5. realistic pictures x every field replaced by boundary numbers
    let nums: [&str; 16] = ["0", "00", "000", "1", "12", "13", "31", "32", "59", "60", "99", "365", "366", "367", "999", "9999"];
    let shapes: Vec<(&str, Vec<&str>)> = vec![
        ("DDD YYYY", vec!["{} 2021", "{} 2024", "366 {}", "001 {}"]), ("YYYY DDD", vec!["2021 {}", "{} 366", "{} 060"]), ("DDD", vec!["{}"]), ("YYYY-MM-DD", vec!["{}-02-29", "2021-{}-31", "2021-02-{}"]),
        ("DD MON YYYY", vec!["{} Feb 2021", "29 Feb {}"]), ("HH24:MI:SS.FF", vec!["{}:00:00", "23:{}:59", "23:59:{}", "23:59:59.{}"]), ("HH12:MI AM", vec!["{}:30 PM", "12:{} am"]),
        ("YYYY-MM", vec!["+{}-11", "-{}-00", "+1-{}"]), ("DD HH24:MI:SS", vec!["+{} 23:59:59", "-1 {}:00:00", "+0 00:{}:00"]), ("D YYYY-MM-DD", vec!["{} 2021-04-22"]), ("YY-MM-DD", vec!["{}-02-29", "+{}-02-28", "-{}-02-28"]),
        ("YYYY-MM-DD DDD D", vec!["2024-12-31 {} 3", "2021-04-22 112 {}"]),
    ];
    let mut cases: Vec<(String, String)> = Vec::new();
    for (pic, tmpls) in &shapes {
        for t in tmpls {
            for n in nums.iter() {
                cases.push((pic.to_string(), t.replace("{}", n)));
            }
            for big in ["99999", "2147483647", "2147483648", "4294967295", "4294967296", "99999999999999999999"] {
                cases.push((pic.to_string(), t.replace("{}", big)));
            }
        }
    }
    let cases_r = &cases;
    let r = ctx.sweep_each(&format!("{pre}boundary_numbers_in_realistic_pictures"), "twelve realistic pictures x texts in which one field at a time takes boundary numbers (0, 00, 12/13, 31/32, 59/60, 365/366/367, 999, 9999, 2^31, 2^32, 20 digits) x 6 types", cases.len() as u64, 16, |idx, acc| {
        let (pic, text) = &cases_r[idx as usize];
        acc.states += 1;
        if let Ok(f) = Formatter::try_new(pic) {
            acc.nontrivial += 1;
            parse_all_types(acc, idx, &f, pic, text, p);
        }
    });
    ctx.require(&r, &["parsed", "parse_error"]);

    // 6. the serde entry points are safe public functions too
    let canon: Vec<(Ty, String)> = pr.iter().map(|tv| {
        let pic = match tv.ty { Ty::Date => "YYYY-MM-DD", Ty::Time => "HH24:MI:SS.FF6", Ty::Timestamp => "YYYY-MM-DD HH24:MI:SS.FF6", Ty::IntervalYM => "YYYY-MM", Ty::IntervalDT => "DD HH24:MI:SS.FF6", Ty::OracleDate => "YYYY-MM-DD HH24:MI:SS" };
        (tv.ty, tv.format_with(&Formatter::try_new(pic).unwrap()).unwrap_or_default())
    }).collect();
    let canon_r = &canon;
    let nc = canon.len() as u64;
    let r = ctx.sweep_each(&format!("{pre}serde_payloads"), "JSON strings: canonical text (also with 'T' for the blank) followed / preceded by runs of blanks, digits, 'x' and multi-byte characters of every length 0..=300; JSON non-strings; bincode payloads of every length 0..=16 filled with 0x00 / 0x7f / 0xff", nc * 301, 8, |idx, acc| {
        let (ty, text) = &canon_r[(idx % nc) as usize];
        let len = (idx / nc) as usize;
        acc.states += 1;
        let mut docs: Vec<String> = Vec::new();
        for u in [" ", "0", "x", "\u{4e2d}"] {
            let run = u.repeat(len);
            docs.push(format!("\"{text}{run}\""));
            docs.push(format!("\"{run}{text}\""));
            docs.push(format!("\"{}{run}\"", text.replacen(' ', "T", 1)));
        }
        if len < 8 { for d in ["null", "true", "0", "-1", "1e400", "[]", "{}", "\"\"", "", "\"\\u0000\""] { docs.push(d.to_string()); } }
        for d in &docs {
            acc.t(1);
            let r = guard(|| match ty {
                Ty::Date => serde_json::from_str::<Date>(d).is_ok(),
                Ty::Time => serde_json::from_str::<Time>(d).is_ok(),
                Ty::Timestamp => serde_json::from_str::<Timestamp>(d).is_ok(),
                Ty::IntervalYM => serde_json::from_str::<IntervalYM>(d).is_ok(),
                Ty::IntervalDT => serde_json::from_str::<IntervalDT>(d).is_ok(),
                Ty::OracleDate => serde_json::from_str::<OracleDate>(d).is_ok(),
            });
            match r {
                Ok(true) => acc.cls("decoded"),
                Ok(false) => acc.cls("decode_error"),
                Err(()) => acc.fail(&format!("C03:{p}:serde-json-decode:panic"), idx, || (format!("serde_json::from_str::<{ty:?}>({d:?})"), "a value or an error".into(), "panic".into(), String::new())),
            }
        }
        if len <= 16 {
            for fill in [0x00u8, 0x7f, 0xff, 0x80, 0x01, 0x78] {
                let bytes = vec![fill; len];
                // the same bytes handed over as a byte string by a self-describing format
                acc.t(1);
                let rb = guard(|| {
                    use serde::de::value::{BytesDeserializer, Error as VE};
                    use serde::Deserialize;
                    let d = BytesDeserializer::<VE>::new(&bytes);
                    match ty {
                        Ty::Date => Date::deserialize(d).is_ok(),
                        Ty::Time => Time::deserialize(d).is_ok(),
                        Ty::Timestamp => Timestamp::deserialize(d).is_ok(),
                        Ty::IntervalYM => IntervalYM::deserialize(d).is_ok(),
                        Ty::IntervalDT => IntervalDT::deserialize(d).is_ok(),
                        Ty::OracleDate => OracleDate::deserialize(d).is_ok(),
                    }
                });
                if rb.is_err() {
                    acc.fail(&format!("C03:{p}:bytes-decode:panic"), idx, || (format!("{ty:?}::deserialize(BytesDeserializer of {len} bytes of {fill:#04x})"), "a value or an error".into(), "panic".into(), String::new()));
                }
                acc.t(1);
                let r = guard(|| match ty {
                    Ty::Date => bincode::deserialize::<Date>(&bytes).is_ok(),
                    Ty::Time => bincode::deserialize::<Time>(&bytes).is_ok(),
                    Ty::Timestamp => bincode::deserialize::<Timestamp>(&bytes).is_ok(),
                    Ty::IntervalYM => bincode::deserialize::<IntervalYM>(&bytes).is_ok(),
                    Ty::IntervalDT => bincode::deserialize::<IntervalDT>(&bytes).is_ok(),
                    Ty::OracleDate => bincode::deserialize::<OracleDate>(&bytes).is_ok(),
                });
                if r.is_err() {
                    acc.fail(&format!("C03:{p}:bincode-decode:panic"), idx, || (format!("bincode::deserialize::<{ty:?}>({len} bytes of {fill:#04x})"), "a value or an error".into(), "panic".into(), String::new()));
                } else { acc.cls("binary_decode_returned"); }
            }
        }
    });
    ctx.require(&r, &["decoded", "decode_error", "binary_decode_returned"]);

    // byte-string payloads of length 7 and 8 over a small byte alphabet (native 7-byte DATE layouts and the like)
    let balpha: [u8; 7] = [0, 1, 2, 100, 120, 121, 255];
    let nb = balpha.len() as u64;
    let r = ctx.sweep_each(&format!("{pre}byte_string_payloads"), "every 7-byte string over {0,1,2,100,120,121,255} (and the same with one more byte) handed to each type's Deserialize as a byte string", nb.pow(7), 4096, |idx, acc| {
        use serde::de::value::{BytesDeserializer, Error as VE};
        use serde::Deserialize;
        let mut bytes = [0u8; 8];
        let mut k = idx;
        for b in bytes.iter_mut().take(7) { *b = balpha[(k % nb) as usize]; k /= nb; }
        bytes[7] = bytes[0];
        acc.states += 1;
        for len in [7usize, 8] {
            acc.t(6);
            let r = guard(|| {
                let s = &bytes[..len];
                (Date::deserialize(BytesDeserializer::<VE>::new(s)).is_ok(), Time::deserialize(BytesDeserializer::<VE>::new(s)).is_ok(), Timestamp::deserialize(BytesDeserializer::<VE>::new(s)).is_ok(),
                 IntervalYM::deserialize(BytesDeserializer::<VE>::new(s)).is_ok(), IntervalDT::deserialize(BytesDeserializer::<VE>::new(s)).is_ok(), OracleDate::deserialize(BytesDeserializer::<VE>::new(s)).is_ok())
            });
            match r { Ok(_) => acc.cls("returned"), Err(()) => acc.fail(&format!("C03:{p}:bytes-decode:panic"), idx, || (format!("Deserialize from the byte string {:?}", &bytes[..len]), "a value or an error".into(), "panic".into(), String::new())) }
        }
    });
    ctx.require(&r, &["returned"]);

    // hidden state: a call that panics only because of what an earlier call left behind (a panic is an outcome that
    // differs from the lone-call baseline); this profile only
    if !ctx.child {
        crate::histpairs::pairwise(ctx, "C03", "compile_and_format", crate::histpairs::calls_format());
        crate::histpairs::pairwise(ctx, "C03", "parse", crate::histpairs::calls_parse());
        crate::histpairs::pairwise(ctx, "C03", "field_accessors_and_constructors", crate::histpairs::calls_accessors());
    }

    // ---- the other profile, in a child process
    if p == "fast" && !ctx.child && ctx.replay.is_none() {
        match std::env::var("VERIF_CHECKED_BIN") {
            Ok(bin) => {
                let out = std::process::Command::new(&bin)
                    .arg("C03")
                    .arg(ctx.tier.name())
                    .arg("--child")
                    .env("VERIF_PROFILE", "checked")
                    .env("VERIF_SEED", ctx.seed.to_string())
                    .output();
                match out {
                    Ok(o) => {
                        let stdout = String::from_utf8_lossy(&o.stdout);
                        match stdout.lines().find_map(|l| l.strip_prefix("CHILD-SUMMARY ")) {
                            Some(js) => match explorer::serde_json::from_str::<explorer::serde_json::Value>(js) {
                                Ok(v) => ctx.absorb_child(&v),
                                Err(e) => ctx.machinery_failure(format!("checked-profile child: summary does not parse: {e}")),
                            },
                            None => {
                                let err = String::from_utf8_lossy(&o.stderr);
                                let tail: String = err.lines().rev().take(8).collect::<Vec<_>>().join(" | ");
                                ctx.machinery_failure(format!("checked-profile child produced no summary (status {:?}): {tail}", o.status.code()));
                            }
                        }
                    }
                    Err(e) => ctx.machinery_failure(format!("cannot run checked-profile harness {bin}: {e}")),
                }
            }
            Err(_) => ctx.machinery_failure("VERIF_CHECKED_BIN is not set: the checked-profile half of C03 cannot run (use ./check C03 <tier>)".into()),
        }
    }
}
