//! C05 — parsing returns the value the text denotes and rejects text that denotes none.

use crate::common::*;
use crate::pools::*;
use crate::probe::*;
use crate::spell::*;
use explorer::serde_json::json;
use explorer::{Acc, Ctx};
use refmodel::calendar::{month_len, year_len};
use refmodel::picture::{tokenize, Fields, Tok, Ty};
use sqldatetime::Formatter;

/// One parse compared with the model: `expect = Some(v)` the text denotes v; `None` it denotes
/// nothing and must be rejected with an error.
#[inline]
pub fn parse_case(acc: &mut Acc, idx: u64, sigp: &str, ty: Ty, fmt: &Formatter, pic: &str, text: &str, expect: Option<i64>) {
    acc.t(1);
    acc.traces += 1;
    let got = guard(|| TV::parse_with(ty, text, fmt));
    let ok = match (&got, expect) {
        (Ok(Ok(v)), Some(x)) => *v == x,
        (Ok(Err(_)), None) => true,
        _ => false,
    };
    match expect { Some(_) => acc.cls("accepted_with_denoted_value"), None => { acc.cls("rejected"); acc.nontrivial += 1; } }
    if !ok {
        let kind = match (&got, expect) {
            (Err(()), _) => "panic",
            (Ok(Ok(_)), None) => "accepts-text-that-denotes-no-value",
            (Ok(Err(_)), Some(_)) => "rejects-text-that-denotes-a-value",
            _ => "wrong-value",
        };
        acc.fail(&format!("C05:{ty:?}:{sigp}:{kind}"), idx, || {
            (format!("{ty:?}::parse({text:?}, {pic:?})"), match expect { Some(x) => format!("Ok({x})"), None => "Err".into() }, format!("{got:?}"),
             format!("let r = {}::parse({text:?}, {pic:?});", match ty { Ty::Date => "Date", Ty::Time => "Time", Ty::Timestamp => "Timestamp", Ty::IntervalYM => "IntervalYM", Ty::IntervalDT => "IntervalDT", Ty::OracleDate => "OracleDate" }))
        });
    }
}

pub fn pictures_for(ty: Ty) -> Vec<&'static str> {
    match ty {
        Ty::Date => vec![
            "YYYY-MM-DD", "DD/MM/YYYY", "YYYYMMDD", "DD MON YYYY", "MONTH DD, YYYY", "YYYY-MM-DD DAY", "Dy, DD Mon YYYY", "YYYY DDD", "DDD/YYYY", "YYYY.MM.DD D", "DD-MM-YYYY",
            "YYYY\\MM\\DD", "YYYY;MM;DD", "YYYY MM DD", "MM/DD/YYYY", "YYYY-mon-DD", "day DD month YYYY", "YYYYMMDD D", "YYYY-MM-DD DDD", "D DDD YYYY", "DD.MM.YYYY", "YYYY,MM,DD",
            "DDD-YYYY-MM-DD Day", "YYYY-MM-DDT", "MON-DD-YYYY",
        ],
        Ty::Time => vec![
            "HH24:MI:SS", "HH24:MI:SS.FF", "HH24:MI:SS.FF6", "HH12:MI:SS AM", "AM HH12:MI:SS", "HH:MI:SS.FF3 P.M.", "HH24MISS", "HH24 MI SS", "HH24-MI-SS", "SS:MI:HH24", "HH24:MI",
            "HH12 am", "HH24.MI.SS.FF9", "a.m. HH12:MI", "HH24:MI:SS.FF1", "HH24;MI;SS", "MI:SS.FF4", "HH24", "SS.FF2", "HH12:MI:SS.FF pm", "HH24:MI:SS,FF5", "FF7",
        ],
        Ty::Timestamp => vec![
            "YYYY-MM-DD HH24:MI:SS.FF6", "YYYY-MM-DDTHH24:MI:SS", "DD/MM/YYYY HH12:MI:SS AM", "YYYYMMDDHH24MISS", "DD MON YYYY HH24:MI", "YYYY-MM-DD HH24:MI:SS.FF",
            "MONTH DD, YYYY HH12:MI:SS.FF3 P.M.", "YYYY DDD HH24:MI:SS", "YYYY-MM-DD", "HH24:MI:SS YYYY-MM-DD", "PM HH12:MI DD.MM.YYYY", "YYYY-MM-DD HH24", "YYYY-MM-DD HH24:MI:SS.FF9",
            "Day, DD Month YYYY HH24:MI:SS", "YYYY/MM/DD HH24-MI-SS.FF2", "DDD YYYY HH12 a.m.", "YYYY-MM-DD HH24:MI:SS.FF1", "YYYYMMDD HH24MISSFF6", "DD-MON-YYYY HH12.MI.SS.FF6 AM", "YYYY-MM-DD D HH24:MI",
        ],
        Ty::OracleDate => vec![
            "YYYY-MM-DD HH24:MI:SS", "YYYY-MM-DDTHH24:MI:SS", "DD/MM/YYYY HH12:MI:SS AM", "YYYYMMDDHH24MISS", "DD MON YYYY HH24:MI", "MONTH DD, YYYY HH12:MI:SS P.M.", "YYYY DDD HH24:MI:SS",
            "YYYY-MM-DD", "HH24:MI:SS YYYY-MM-DD", "PM HH12:MI DD.MM.YYYY", "YYYY-MM-DD HH24", "Day, DD Month YYYY HH24:MI:SS", "YYYY/MM/DD HH24-MI-SS", "DDD YYYY HH12 a.m.", "DD-MON-YYYY HH12.MI.SS AM",
            "YYYY-MM-DD D HH24:MI",
        ],
        Ty::IntervalYM => vec!["YYYY-MM", "YYYY MM", "YY-MM", "YYYY:MM", "YYYY/MM", "Y-MM", "YYYY", "YYY.MM", "YYYY;MM", "YYYY,MM"],
        Ty::IntervalDT => vec![
            "DD HH24:MI:SS.FF6", "DD HH24:MI:SS", "DD HH24:MI:SS.FF", "DD-HH24-MI-SS", "DD HH24:MI", "DD", "DD HH24:MI:SS.FF3", "DD,HH24;MI/SS", "DD HH24", "DD HH24:MI:SS.FF9", "DDTHH24:MI:SS.FF1",
            "DD SS", "DD MI:SS.FF2",
        ],
    }
}

pub fn values_for(ty: Ty, seed: u64, full: bool) -> Vec<TV> {
    let w = world();
    let step = if full { 1 } else { 3 };
    let v: Vec<i64> = match ty {
        Ty::Date => pool_dates(w, seed).into_iter().map(|x| x as i64).collect(),
        Ty::Time => pool_times(seed),
        Ty::Timestamp => pool_ts(w, seed),
        Ty::OracleDate => pool_od(w, seed),
        Ty::IntervalYM => pool_ym(seed).into_iter().map(|x| x as i64).collect(),
        Ty::IntervalDT => pool_dt(seed),
    };
    v.into_iter().step_by(step).map(|raw| TV { ty, raw }).collect()
}

fn for_each_subset(n: usize, k: usize, f: &mut dyn FnMut(&[usize])) {
    let mut cur: Vec<usize> = Vec::new();
    fn rec(n: usize, k: usize, start: usize, cur: &mut Vec<usize>, f: &mut dyn FnMut(&[usize])) {
        f(cur);
        if cur.len() == k { return; }
        for i in start..n {
            cur.push(i);
            rec(n, k, i + 1, cur, f);
            cur.pop();
        }
    }
    rec(n, k, 0, &mut cur, f);
}

pub fn run(ctx: &mut Ctx) {
    let w = world();
    let cal = &w.cal;
    let seed = ctx.seed;
    ctx.rule("a case is one (type, picture, text) triple at a distinct enumeration index; non-trivial = the text deviates from the canonical spelling (a lenient spelling is exercised) or denotes no value and must be rejected");
    ctx.assume("model = generator: texts are produced from (value, picture, spelling choices), so the denoted value is known by construction; 'fails' means any Err; spellings the properties leave open (12-hour field without meridian, partial dates, partial interval pictures, digit runs made ambiguous by unpadding) are not generated");

    // a. every (year, day-of-year) pair
    let r = ctx.sweep("year_x_day_of_year", "every (year 1..=9999, DDD 0..=367) under 'YYYY DDD' and 'DDD YYYY' (Date), 'YYYY DDD HH24' (Timestamp)", 9999 * 368, 368 * 8, |range, acc| {
        let f1 = Formatter::try_new("YYYY DDD").unwrap();
        let f2 = Formatter::try_new("DDD YYYY").unwrap();
        let f3 = Formatter::try_new("YYYY DDD HH24").unwrap();
        for idx in range {
            let y = (idx / 368) as i32 + 1;
            let ddd = (idx % 368) as i32;
            acc.states += 1;
            let valid = ddd >= 1 && ddd <= year_len(y);
            let exp = if valid { Some((cal.year_start(y) + ddd - 1) as i64) } else { None };
            parse_case(acc, idx, "day-of-year", Ty::Date, &f1, "YYYY DDD", &format!("{y:04} {ddd:03}"), exp);
            parse_case(acc, idx, "day-of-year", Ty::Date, &f2, "DDD YYYY", &format!("{ddd:03} {y:04}"), exp);
            parse_case(acc, idx, "day-of-year", Ty::Timestamp, &f3, "YYYY DDD HH24", &format!("{y:04} {ddd:03} 07"), exp.map(|n| n * US_DAY + 7 * US_HOUR));
        }
    });
    ctx.require(&r, &["accepted_with_denoted_value", "rejected"]);

    // a'. redundant fields must agree: (DDD, MM, DD) all triples for four year classes
    let years = [2024, 2023, 1900, 2000, 1, 9999];
    let r = ctx.sweep_each("day_of_year_vs_month_day", "for six year classes every (DDD 1..=366, MM 1..=12, DD 1..=31) triple under 'YYYY DDD MM DD', 'YYYY DDD MM' and 'YYYY DDD DD': accepted iff consistent", 6 * 366 * 12 * 31, 4096, |idx, acc| {
        thread_local! { static F: (Formatter, Formatter, Formatter) = (Formatter::try_new("YYYY DDD MM DD").unwrap(), Formatter::try_new("YYYY DDD MM").unwrap(), Formatter::try_new("YYYY DDD DD").unwrap()); }
        let mut k = idx;
        let d = (k % 31) as u32 + 1; k /= 31;
        let m = (k % 12) as u32 + 1; k /= 12;
        let ddd = (k % 366) as i32 + 1; k /= 366;
        let y = years[k as usize];
        acc.states += 1;
        let dvalid = ddd <= year_len(y);
        let (em, ed, n) = if dvalid { let c = cal.at(cal.year_start(y) + ddd - 1); (c.m, c.d, c.n as i64) } else { (0, 0, 0) };
        F.with(|f| {
            parse_case(acc, idx, "redundant-day-of-year", Ty::Date, &f.0, "YYYY DDD MM DD", &format!("{y:04} {ddd:03} {m:02} {d:02}"), if dvalid && em == m && ed == d { Some(n) } else { None });
            if d == 1 { parse_case(acc, idx, "redundant-day-of-year", Ty::Date, &f.1, "YYYY DDD MM", &format!("{y:04} {ddd:03} {m:02}"), if dvalid && em == m { Some(n) } else { None }); }
            if m == 1 { parse_case(acc, idx, "redundant-day-of-year", Ty::Date, &f.2, "YYYY DDD DD", &format!("{y:04} {ddd:03} {d:02}"), if dvalid && ed == d { Some(n) } else { None }); }
        });
    });
    ctx.require(&r, &["accepted_with_denoted_value", "rejected"]);

    // b. every date through several pictures; every weekday name / number against every date
    let total = cal.total_days() as u64;
    let r = ctx.sweep("all_dates_canonical_pictures", "all dates x 9 pictures at deviation 0, and x 7 weekday names / numbers (accepted iff it is that weekday)", total, 1024, |range, acc| {
        let pics = ["YYYY-MM-DD", "DD/MM/YYYY", "YYYYMMDD", "DD MON YYYY", "MONTH DD, YYYY", "YYYY-MM-DD DAY", "YYYY-MM-DD D", "DDD YYYY", "Dy DD-Mon-YYYY"];
        let cs: Vec<(Vec<Tok>, Formatter)> = pics.iter().map(|p| (tokenize(p.as_bytes()).unwrap(), Formatter::try_new(p).unwrap())).collect();
        let fday = Formatter::try_new("YYYY-MM-DD DAY").unwrap();
        let fd = Formatter::try_new("D YYYY-MM-DD").unwrap();
        let fts = Formatter::try_new("YYYY-MM-DD HH24:MI:SS").unwrap();
        let mut c = cal.at(cal.min_day + range.start as i32);
        for idx in range {
            let f = Fields { year: c.y as i64, month: c.m, day: c.d, weekday: c.wd, doy: c.doy, ..Fields::default() };
            acc.states += 1;
            for (k, (toks, fmt)) in cs.iter().enumerate() {
                let text = refmodel::picture::render(toks, Ty::Date, &f).unwrap();
                parse_case(acc, idx, "canonical", Ty::Date, fmt, pics[k], &text, Some(c.n as i64));
            }
            // the same date through the Timestamp and OracleDate conversions (each has its own validation)
            let text = format!("{:04}-{:02}-{:02} 23:59:59", c.y, c.m, c.d);
            parse_case(acc, idx, "canonical", Ty::Timestamp, &fts, "YYYY-MM-DD HH24:MI:SS", &text, Some(c.n as i64 * US_DAY + US_DAY - US_SEC));
            parse_case(acc, idx, "canonical", Ty::OracleDate, &fts, "YYYY-MM-DD HH24:MI:SS", &text, Some(c.n as i64 * US_DAY + US_DAY - US_SEC));
            for wd in 1..=7u32 {
                let exp = if wd == c.wd { Some(c.n as i64) } else { None };
                let name = refmodel::tables::DAY_NAMES[wd as usize - 1];
                parse_case(acc, idx, "weekday-consistency", Ty::Date, &fday, "YYYY-MM-DD DAY", &format!("{:04}-{:02}-{:02} {}", c.y, c.m, c.d, name), exp);
                parse_case(acc, idx, "weekday-consistency", Ty::Date, &fd, "D YYYY-MM-DD", &format!("{} {:04}-{:02}-{:02}", wd, c.y, c.m, c.d), exp);
            }
            if c.n == 0 { acc.want_sample = true; acc.sample(|| json!({"text": "01/01/1970", "picture": "DD/MM/YYYY", "denotes_day": 0})); acc.want_sample = false; }
            c.next();
        }
    });
    ctx.require(&r, &["accepted_with_denoted_value", "rejected"]);

    // b'. every year x every month x days {0, 1, 28..=32} through Date, Timestamp and OracleDate (each type has its own validation path)
    let dayset: [u32; 7] = [0, 1, 28, 29, 30, 31, 32];
    let r = ctx.sweep_each("month_ends_every_year_three_types", "every (year 1..=9999, month 1..=12, day in {0,1,28,29,30,31,32}) as text under YYYY-MM-DD (Date), YYYY-MM-DD HH24:MI:SS (Timestamp, OracleDate): accepted iff a real date", 9999 * 12 * 7, 4096, |idx, acc| {
        thread_local! { static F: (Formatter, Formatter) = (Formatter::try_new("YYYY-MM-DD").unwrap(), Formatter::try_new("YYYY-MM-DD HH24:MI:SS").unwrap()); }
        let d = dayset[(idx % 7) as usize];
        let m = ((idx / 7) % 12) as u32 + 1;
        let y = (idx / 84) as i32 + 1;
        acc.states += 1;
        let real = d >= 1 && d <= month_len(y, m);
        let n = if real { Some(cal.day_number(y, m, d) as i64) } else { None };
        F.with(|f| {
            parse_case(acc, idx, "month-end", Ty::Date, &f.0, "YYYY-MM-DD", &format!("{y:04}-{m:02}-{d:02}"), n);
            let text = format!("{y:04}-{m:02}-{d:02} 13:14:15");
            let tod = 13 * US_HOUR + 14 * US_MIN + 15 * US_SEC;
            parse_case(acc, idx, "month-end", Ty::Timestamp, &f.1, "YYYY-MM-DD HH24:MI:SS", &text, n.map(|n| n * US_DAY + tod));
            parse_case(acc, idx, "month-end", Ty::OracleDate, &f.1, "YYYY-MM-DD HH24:MI:SS", &text, n.map(|n| n * US_DAY + tod));
        });
    });
    ctx.require(&r, &["accepted_with_denoted_value", "rejected"]);

    // c. every second in 24-hour and 12-hour + meridian notation, both field orders
    let r = ctx.sweep("all_seconds_clock_notations", "all 86,400 seconds x {HH24:MI:SS, HH12:MI:SS AM, AM HH12:MI:SS, dotted, lower-case} on Time, Timestamp and OracleDate", 86_400, 512, |range, acc| {
        let pics = ["HH24:MI:SS", "HH12:MI:SS AM", "AM HH12:MI:SS", "HH:MI:SS a.m.", "p.m. HH12:MI:SS", "HH12:MI:SS pm", "HH24MISS"];
        let cs: Vec<(Vec<Tok>, Formatter, Vec<Tok>, Formatter, String)> = pics.iter().map(|p| {
            let dp = format!("YYYY-MM-DD {p}");
            (tokenize(p.as_bytes()).unwrap(), Formatter::try_new(p).unwrap(), tokenize(dp.as_bytes()).unwrap(), Formatter::try_new(&dp).unwrap(), dp)
        }).collect();
        let n = cal.day_number(1969, 12, 31);
        for idx in range {
            let t = idx as i64 * US_SEC;
            acc.states += 1;
            let ft = fields_time(t);
            let fi = fields_instant(n, t);
            for (k, (toks, fmt, dtoks, dfmt, dp)) in cs.iter().enumerate() {
                let text = refmodel::picture::render(toks, Ty::Time, &ft).unwrap();
                parse_case(acc, idx, "clock-notation", Ty::Time, fmt, pics[k], &text, Some(t));
                let text = refmodel::picture::render(dtoks, Ty::Timestamp, &fi).unwrap();
                parse_case(acc, idx, "clock-notation", Ty::Timestamp, dfmt, dp, &text, Some(n as i64 * US_DAY + t));
                parse_case(acc, idx, "clock-notation", Ty::OracleDate, dfmt, dp, &text, Some(n as i64 * US_DAY + t));
            }
        }
    });
    ctx.require(&r, &["accepted_with_denoted_value"]);

    // d. fractions: rounding half-up beyond six digits, carry into the higher fields
    let digits7: u64 = 10_000_000;
    let r = ctx.sweep("fractions_six_and_seven_digits", "all 10^6 six-digit and all 10^7 seven-digit fractions under FF / FF7 / FF9 on Time: value = fraction rounded half-up to microseconds", 1_000_000 + digits7, 1 << 14, |range, acc| {
        let f_ff = Formatter::try_new("HH24:MI:SS.FF").unwrap();
        let f_7 = Formatter::try_new("HH24:MI:SS.FF7").unwrap();
        let f_9 = Formatter::try_new("HH24:MI:SS.FF9").unwrap();
        for idx in range {
            acc.states += 1;
            if idx < 1_000_000 {
                let text = format!("11:22:33.{:06}", idx);
                let exp = 11 * US_HOUR + 22 * US_MIN + 33 * US_SEC + idx as i64;
                parse_case(acc, idx, "fraction", Ty::Time, &f_ff, "HH24:MI:SS.FF", &text, Some(exp));
                parse_case(acc, idx, "fraction", Ty::Time, &f_9, "HH24:MI:SS.FF9", &text, Some(exp));
            } else {
                let v = idx - 1_000_000;
                let text = format!("11:22:33.{:07}", v);
                let exp = 11 * US_HOUR + 22 * US_MIN + 33 * US_SEC + ((v + 5) / 10) as i64;
                parse_case(acc, idx, "fraction", Ty::Time, &f_7, "HH24:MI:SS.FF7", &text, Some(exp));
                parse_case(acc, idx, "fraction", Ty::Time, &f_ff, "HH24:MI:SS.FF", &text, Some(exp));
            }
        }
    });
    ctx.require(&r, &["accepted_with_denoted_value"]);
    let r = ctx.sweep("fractions_nine_digits_around_ties", "for every microsecond the nine-digit texts just below / at / above the rounding tie under FF9 and FF", 1_000_000, 1 << 13, |range, acc| {
        let f_9 = Formatter::try_new("HH24:MI:SS.FF9").unwrap();
        let f_ff = Formatter::try_new("SS.FF").unwrap();
        for idx in range {
            acc.states += 1;
            for (tail, up) in [(499u64, 0i64), (500, 1), (501, 1), (0, 0), (999, 1)] {
                let text = format!("23:59:58.{:06}{:03}", idx, tail);
                let exp = 23 * US_HOUR + 59 * US_MIN + 58 * US_SEC + idx as i64 + up;
                parse_case(acc, idx, "fraction", Ty::Time, &f_9, "HH24:MI:SS.FF9", &text, Some(exp));
                let text = format!("58.{:06}{:03}", idx, tail);
                parse_case(acc, idx, "fraction", Ty::Time, &f_ff, "SS.FF", &text, Some(58 * US_SEC + idx as i64 + up));
            }
        }
    });
    ctx.require(&r, &["accepted_with_denoted_value"]);
    if ctx.thorough() {
        ctx.sweep("fractions_eight_digits", "all 10^8 eight-digit fractions under FF8", 100_000_000, 1 << 16, |range, acc| {
            let f_8 = Formatter::try_new("SS.FF8").unwrap();
            for idx in range {
                acc.states += 1;
                let text = format!("07.{:08}", idx);
                parse_case(acc, idx, "fraction", Ty::Time, &f_8, "SS.FF8", &text, Some(7 * US_SEC + ((idx + 50) / 100) as i64));
            }
        });
    }
    // carry chain per type
    let mut carry_cases: Vec<(Ty, &'static str, String, Option<i64>)> = Vec::new();
    let day = |y, m, d| cal.day_number(y, m, d) as i64 * US_DAY;
    for tail in ["9999995", "9999994", "99999950", "999999500", "999999499", "9999999"] {
        let up = !matches!(tail, "9999994" | "999999499");
        let pic_t: &'static str = "HH24:MI:SS.FF";
        let add = if up { 1_000_000 } else { 999_999 };
        carry_cases.push((Ty::Time, pic_t, format!("00:00:00.{tail}"), Some(add)));
        carry_cases.push((Ty::Time, pic_t, format!("00:00:59.{tail}"), Some(59 * US_SEC + add)));
        carry_cases.push((Ty::Time, pic_t, format!("00:59:59.{tail}"), Some(59 * US_MIN + 59 * US_SEC + add)));
        carry_cases.push((Ty::Time, pic_t, format!("23:59:59.{tail}"), if up { None } else { Some(US_DAY - 1) }));
        let pic_s: &'static str = "YYYY-MM-DD HH24:MI:SS.FF";
        for (y, m, d) in [(2023, 1, 31), (2023, 2, 28), (2024, 2, 28), (2024, 2, 29), (2023, 4, 30), (2023, 12, 31), (1969, 12, 31), (1, 1, 1), (9999, 12, 30)] {
            carry_cases.push((Ty::Timestamp, pic_s, format!("{y:04}-{m:02}-{d:02} 23:59:59.{tail}"), Some(day(y, m, d) + 23 * US_HOUR + 59 * US_MIN + 59 * US_SEC + add)));
            carry_cases.push((Ty::Timestamp, pic_s, format!("{y:04}-{m:02}-{d:02} 11:59:59.{tail}"), Some(day(y, m, d) + 11 * US_HOUR + 59 * US_MIN + 59 * US_SEC + add)));
        }
        carry_cases.push((Ty::Timestamp, pic_s, format!("9999-12-31 23:59:59.{tail}"), if up { None } else { Some(day(9999, 12, 31) + US_DAY - 1) }));
        let pic_i: &'static str = "DD HH24:MI:SS.FF";
        carry_cases.push((Ty::IntervalDT, pic_i, format!("+01 00:00:00.{tail}"), Some(US_DAY + add)));
        carry_cases.push((Ty::IntervalDT, pic_i, format!("-01 00:00:59.{tail}"), Some(-(US_DAY + 59 * US_SEC + add))));
        carry_cases.push((Ty::IntervalDT, pic_i, format!("+00 23:59:59.{tail}"), Some(US_DAY - 1_000_000 + add)));
        carry_cases.push((Ty::IntervalDT, pic_i, format!("+99999999 23:59:59.{tail}"), Some(100_000_000 * US_DAY - 1_000_000 + add)));
        carry_cases.push((Ty::IntervalDT, pic_i, format!("+100000000 00:00:00.{tail}"), None));
    }
    let cc = &carry_cases;
    let r = ctx.sweep_each("fraction_carry_chain", "rounding ties at second / minute / hour / day / month / year boundaries for Time, Timestamp and IntervalDT: the carry propagates, or the text is rejected when the carried value leaves the range", carry_cases.len() as u64, 16, |idx, acc| {
        let (ty, pic, text, exp) = &cc[idx as usize];
        acc.states += 1;
        let fmt = Formatter::try_new(pic).unwrap();
        parse_case(acc, idx, "fraction-carry", *ty, &fmt, pic, text, *exp);
    });
    ctx.require(&r, &["accepted_with_denoted_value", "rejected"]);

    // e. deviation-bounded lenient spellings
    let kdev: usize = if ctx.thorough() { 4 } else { 3 };
    ctx.bound("lenient_spellings", json!(format!("every combination of at most {kdev} deviations (unpadded number, leading '+', extra blanks at any token boundary, letter case of names / meridians, month name for month number, trimmed fraction zeros, dropped trailing time fields) at all positions")));
    let mut combos: Vec<(Ty, &'static str, TV)> = Vec::new();
    // well-known pictures (as written and in lower case) are explored like the per-type lists
    let wk: Vec<&'static str> = crate::c19::WELL_KNOWN.iter().flat_map(|p| [p.to_string(), crate::c19::case_variant(p, 2)]).map(|s| &*Box::leak(s.into_boxed_str())).collect();
    for ty in refmodel::picture::ALL_TYPES {
        let vals = values_for(ty, seed, true);
        let mut pics = pictures_for(ty);
        if ty.has_date() || ty == Ty::Time { pics.extend(wk.iter().copied()); }
        for pic in pics {
            // keep only pictures that determine a value of this type
            let toks = match tokenize(pic.as_bytes()) { Some(t) => t, None => continue };
            if denoted(ty, &toks, &vals[0].fields()).is_none() { continue; }
            for v in vals.iter().step_by(if pictures_for(ty).contains(&pic) { 1 } else { 4 }) {
                combos.push((ty, pic, *v));
            }
        }
    }
    let combos_r = &combos;
    let r = ctx.sweep_each("lenient_spellings", "six types x ~20 pictures each x boundary pool values x all deviation sets up to the bound", combos.len() as u64, 4, |idx, acc| {
        let (ty, pic, tv) = &combos_r[idx as usize];
        let toks = tokenize(pic.as_bytes()).expect("reference accepts picture");
        let fmt = match guard(|| Formatter::try_new(pic)) { Ok(Ok(f)) => f, _ => { acc.fail("C05:picture-rejected", idx, || (format!("Formatter::try_new({pic:?})"), "Ok".into(), "Err".into(), String::new())); return; } };
        let f = tv.fields();
        let sp = match Spelled::new(*ty, &toks, &f) { Some(s) => s, None => return };
        let devs = sp.deviations();
        acc.states += 1;
        let mut chosen: Vec<Dev> = Vec::new();
        for_each_subset(devs.len(), kdev, &mut |ix: &[usize]| {
            chosen.clear();
            chosen.extend(ix.iter().map(|&i| devs[i]));
            if let Some((text, val)) = sp.apply(&chosen) {
                if ix.is_empty() { acc.cls("canonical_text"); } else { acc.nontrivial += 1; }
                parse_case(acc, idx, "lenient-spelling", *ty, &fmt, pic, &text, Some(val));
                if idx == 3 && ix.len() == 2 { acc.want_sample = true; acc.sample(|| json!({"type": format!("{ty:?}"), "picture": pic, "value": tv.raw, "deviations": format!("{chosen:?}"), "text": text, "denotes": val})); acc.want_sample = false; }
            }
        });
    });
    ctx.require(&r, &["accepted_with_denoted_value", "canonical_text"]);

    // f. rejections
    let mut rej: Vec<(Ty, String, String, &'static str)> = Vec::new();
    {
        let mut add = |ty: Ty, pic: &str, text: String, why: &'static str| rej.push((ty, pic.to_string(), text, why));
        for (y, m) in [(2023, 1), (2023, 2), (2024, 2), (2023, 4), (1900, 2), (2000, 2), (9999, 12), (1, 1)] {
            let l = month_len(y, m);
            add(Ty::Date, "YYYY-MM-DD", format!("{y:04}-{m:02}-{:02}", l + 1), "day-past-month-end");
            add(Ty::Date, "YYYY-MM-DD", format!("{y:04}-{m:02}-00"), "day-zero");
            add(Ty::Timestamp, "YYYY-MM-DD HH24:MI:SS", format!("{y:04}-{m:02}-{:02} 00:00:00", l + 1), "day-past-month-end");
            add(Ty::OracleDate, "YYYY-MM-DD HH24:MI:SS", format!("{y:04}-{m:02}-{:02} 00:00:00", l + 1), "day-past-month-end");
        }
        for (pic, text, why) in [
            ("YYYY-MM-DD", "2023-00-10", "month-zero"), ("YYYY-MM-DD", "2023-13-10", "month-13"), ("YYYY-MM-DD", "2023-01-32", "day-32"), ("YYYY-MM-DD", "0000-01-01", "year-zero"),
            ("YYYY-MM-DD", "-2023-01-01", "negative-year"), ("YYYY-MM-DD", "2023--1-01", "negative-month"), ("YYYY-MM-DD", "2023-01--1", "negative-day"),
            ("YYYY DDD", "2023 000", "day-of-year-zero"), ("YYYY DDD", "2023 366", "day-of-year-366-common-year"), ("YYYY DDD", "2024 367", "day-of-year-367"), ("YYYY DDD", "2023 -01", "negative-day-of-year"),
            ("YYYY-MM-DD D", "2023-01-01 0", "weekday-digit-0"), ("YYYY-MM-DD D", "2023-01-01 8", "weekday-digit-8"), ("YYYY-MM-DD D", "2023-01-01 9", "weekday-digit-9"),
            ("YYYY-MM-DD DAY", "2023-01-01 Someday", "not-a-weekday-name"), ("DD MON YYYY", "01 Foo 2023", "not-a-month-name"), 
            ("YYYY-MM-DD", "2023-01-01x", "left-over"), ("YYYY-MM-DD", "2023-01-015", "left-over-digit"), ("YYYY-MM-DD", "2023/01/01", "wrong-separator"),
            ("YYYY-MM-DD YYYY", "2023-01-01 2023", "year-twice"), ("YYYY-MM-DD MM", "2023-01-01 01", "month-twice"), ("MM MON YYYY DD", "01 Jan 2023 01", "month-twice-name"), ("YYYY-MM-DD DD", "2023-01-01 01", "day-twice"),
            ("YYYY DDD DDD", "2023 001 001", "day-of-year-twice"), ("YYYY-MM-DD D D", "2023-01-01 1 1", "weekday-twice"), ("YYYY-MM-DD DAY DY", "2023-01-01 Sunday Sun", "weekday-name-twice"),
            ("YYYY-MM-DD W", "2023-01-01 1", "output-only-W"), ("YYYY-MM-DD WW", "2023-01-01 01", "output-only-WW"), ("YYYY-MM-DD HH24", "2023-01-01 00", "time-field-on-date"), ("YYYY-MM-DD FF", "2023-01-01 0", "fraction-on-date"),
            ("YYYY-MM-DD AM", "2023-01-01 AM", "meridian-on-date"),
        ] {
            add(Ty::Date, pic, text.to_string(), why);
        }
        for (pic, text, why) in [
            ("HH24:MI:SS", "24:00:00", "hour-24"), ("HH24:MI:SS", "00:60:00", "minute-60"), ("HH24:MI:SS", "00:00:60", "second-60"), ("HH24:MI:SS", "-1:00:00", "negative-hour"), ("HH24:MI:SS", "00:-1:00", "negative-minute"),
            ("HH24:MI:SS", "00:00:-1", "negative-second"), ("HH12:MI:SS AM", "00:00:00 AM", "hour12-zero"), ("HH12:MI:SS AM", "13:00:00 AM", "hour12-13"), ("HH12:MI:SS AM", "12:00:00 XM", "bad-meridian"),
            ("HH24 HH12", "10 10", "hour-twice"), ("HH24 HH24", "10 10", "hour-twice"), ("HH12 HH12 AM", "10 10 AM", "hour-twice"),
            ("HH24:MI:MI", "10:10:10", "minute-twice"), ("HH24:MI:SS SS", "10:10:10 10", "second-twice"), ("SS.FF FF", "10.1 1", "fraction-twice"), ("AM PM HH12", "AM PM 10", "meridian-twice"), ("HH24:MI:SS.FF", "10:10:10.-1", "negative-fraction"),
            ("HH24:MI:SS", "10:10:10 x", "left-over"), ("HH24:MI:SS", "10:10:100", "left-over-digit"), ("HH24:MI:SS YYYY", "10:10:10 2023", "date-field-on-time"), ("HH24:MI:SS DD", "10:10:10 01", "day-on-time"), ("HH24:MI:SS MON", "10:10:10 Jan", "month-name-on-time"),
            ("HH24:MI:SS D", "10:10:10 1", "weekday-on-time"), ("HH24:MI:SS DDD", "10:10:10 001", "day-of-year-on-time"), ("HH24:MI:SS W", "10:10:10 1", "output-only-W"),
        ] {
            add(Ty::Time, pic, text.to_string(), why);
        }
        for (pic, text, why) in [
            ("YYYY-MM-DD HH24:MI:SS", "2023-01-01 24:00:00", "hour-24"), ("YYYY-MM-DD HH24:MI:SS", "2023-01-01 00:60:00", "minute-60"), ("YYYY-MM-DD HH24:MI:SS", "2023-01-01 00:00:60", "second-60"),
            ("YYYY-MM-DD HH24:MI:SS", "2023-02-29 00:00:00", "not-a-leap-day"), ("YYYY-MM-DD HH12:MI AM", "2023-01-01 00:30 AM", "hour12-zero"),
            ("YYYY-MM-DD HH24:MI:SS", "2023-01-01 00:00:00 x", "left-over"), ("YYYY DDD MM", "2023 032 01", "day-of-year-vs-month"), ("YYYY DDD DD", "2023 032 02", "day-of-year-vs-day"), ("YYYY-MM-DD DY", "2023-01-01 Mon", "weekday-mismatch"),
            ("YYYY-MM-DD D", "2023-01-01 2", "weekday-number-mismatch"), ("YYYY-MM-DD HH24 WW", "2023-01-01 00 01", "output-only-WW"), ("YYYY-MM-DD HH24 HH24", "2023-01-01 00 00", "hour-twice"),
        ] {
            add(Ty::Timestamp, pic, text.to_string(), why);
            if !pic.contains("FF") { add(Ty::OracleDate, pic, text.to_string(), why); }
        }
        add(Ty::OracleDate, "YYYY-MM-DD HH24:MI:SS.FF", "2023-01-01 00:00:00.5".to_string(), "fraction-on-oracle-date");
        for (pic, text, why) in [
            ("YYYY-MM", "+0001-12", "month-12"), ("YYYY-MM", "+178000000-01", "beyond-limit"), ("YYYY-MM", "+178000001-00", "beyond-limit"), ("YYYY-MM", "+0001--1", "negative-month"), ("YYYY-MM", "+0001-01 x", "left-over"),
            ("YYYY-MM-DD", "+0001-01-01", "day-on-interval-ym"), ("YYYY-MM HH24", "+0001-01 00", "hour-on-interval-ym"), ("YYYY-MON", "+0001-Jan", "month-name-on-interval-ym"), ("YYYY YYYY", "+0001 0001", "year-twice"), ("YYYY-MM MM", "+0001-01 01", "month-twice"),
            ("YYYY-MM W", "+0001-01 1", "output-only-W"),
        ] {
            add(Ty::IntervalYM, pic, text.to_string(), why);
        }
        for (pic, text, why) in [
            ("DD HH24:MI:SS", "+01 24:00:00", "hour-24"), ("DD HH24:MI:SS", "+01 00:60:00", "minute-60"), ("DD HH24:MI:SS", "+01 00:00:60", "second-60"), ("DD HH24:MI:SS", "+100000000 00:00:01", "beyond-limit"),
            ("DD HH24:MI:SS", "+100000001 00:00:00", "beyond-limit"), ("DD HH24:MI:SS", "+01 -1:00:00", "negative-hour"), ("DD HH24:MI:SS", "+01 00:00:00 x", "left-over"), ("DD HH12:MI:SS", "+01 10:00:00", "hh12-on-interval"),
            ("DD HH24:MI:SS AM", "+01 10:00:00 AM", "meridian-on-interval"), ("YYYY DD", "+0001 01", "year-on-interval-dt"), ("DD MM", "+01 01", "month-on-interval-dt"), ("DD DD", "+01 01", "day-twice"), ("DD HH24 HH24", "+01 01 01", "hour-twice"),
            ("DD DDD", "+01 001", "day-of-year-on-interval"), ("DD D", "+01 1", "weekday-on-interval"),
        ] {
            add(Ty::IntervalDT, pic, text.to_string(), why);
        }
    }
    // a sign on a one-, two- or three-digit year field is a negative year whatever the clock says
    for (pic, text) in [("YY-MM-DD", "-21-03-04"), ("Y-MM-DD", "-1-03-04"), ("YYY-MM-DD", "-021-03-04"), ("DD.MM.YY", "04.03.-21")] {
        rej.push((Ty::Date, pic.to_string(), text.to_string(), "negative-short-year"));
        rej.push((Ty::Timestamp, format!("{pic} HH24:MI:SS"), format!("{text} 10:20:30"), "negative-short-year"));
        rej.push((Ty::OracleDate, format!("{pic} HH24"), format!("{text} 10"), "negative-short-year"));
    }
    // a picture with a repeated, output-only or inapplicable code is rejected whatever the text is:
    // every prefix of the full text (trailing fields omitted at any point) must be rejected as well
    let picture_invalid: Vec<(Ty, String, String, &'static str)> = rej.iter().filter(|r| r.3.contains("twice") || r.3.starts_with("output-only") || r.3.contains("-on-")).cloned().collect();
    for (ty, pic, text, _) in picture_invalid {
        let chars: Vec<char> = text.chars().collect();
        for cut in 0..chars.len() {
            rej.push((ty, pic.clone(), chars[..cut].iter().collect(), "invalid-picture-with-truncated-text"));
        }
    }
    for (ty, pic, text) in [
        (Ty::Timestamp, "YYYY-MM-DD HH24:MI:SS WW", "2021-03-04 10"), (Ty::Time, "HH24:MI:SS:MI", "10"), (Ty::Time, "HH24:MI:SS:SS", "10:00"), (Ty::Time, "HH24:MI:SS YYYY", "10"), (Ty::Time, "HH24:MI DAY", "10"),
        (Ty::Timestamp, "YYYY-MM-DD HH24:MI W", "2021-03-04 10:"), (Ty::OracleDate, "YYYY-MM-DD HH24:MI:SS.FF", "2021-03-04 10:11"), (Ty::Timestamp, "YYYY-MM-DD HH24-MI-HH24", "2021-03-04 10"), (Ty::IntervalDT, "DD HH24:MI:SS AM", "+01 10"),
    ] {
        rej.push((ty, pic.to_string(), text.to_string(), "invalid-picture-with-truncated-text"));
    }
    // nine- and ten-digit interval fields far beyond the limits (narrowing before validation wraps there)
    for big in ["178000001", "179913941", "179913942", "200000000", "357913941", "357913942", "400000000", "715827882", "715827883", "999999999", "1000000000", "4294967296"] {
        for sg in ["+", "-", ""] {
            rej.push((Ty::IntervalYM, "YYYY-MM".into(), format!("{sg}{big}-00"), "beyond-limit-many-digits"));
            rej.push((Ty::IntervalYM, "YYYY-MM".into(), format!("{sg}{big}-11"), "beyond-limit-many-digits"));
            rej.push((Ty::IntervalYM, "YYYY".into(), format!("{sg}{big}"), "beyond-limit-many-digits"));
        }
    }
    for big in ["100000001", "107374182", "107374183", "200000000", "214748364", "214748365", "429496729", "429496730", "999999999", "1000000000", "4294967296"] {
        for sg in ["+", "-", ""] {
            rej.push((Ty::IntervalDT, "DD HH24:MI:SS".into(), format!("{sg}{big} 00:00:00"), "beyond-limit-many-digits"));
            rej.push((Ty::IntervalDT, "DD HH24:MI:SS.FF".into(), format!("{sg}{big} 23:59:59.999999"), "beyond-limit-many-digits"));
            rej.push((Ty::IntervalDT, "DD".into(), format!("{sg}{big}"), "beyond-limit-many-digits"));
        }
    }
    // left-over: every non-blank byte of the input alphabet appended to a canonical text that ends in a full-width numeric field
    let alphabet: Vec<&str> = vec!["0", "1", "9", "+", "-", ":", ".", ",", "/", "\\", ";", "A", "a", "M", "p", "T", "J", "u", "x", "\u{e9}", "\u{7f}", "\u{0}", "\u{1}", "\u{7}", "\u{8}", "\u{1b}", "\u{1f}", "\u{a0}"];
    for a in &alphabet {
        rej.push((Ty::Date, "YYYY-MM-DD".into(), format!("2023-01-15{a}"), "left-over-byte"));
        rej.push((Ty::Time, "HH24:MI:SS".into(), format!("10:20:30{a}"), "left-over-byte"));
        rej.push((Ty::Timestamp, "YYYY-MM-DD HH24:MI:SS".into(), format!("2023-01-15 10:20:30{a}"), "left-over-byte"));
        rej.push((Ty::OracleDate, "YYYY-MM-DD HH24:MI:SS".into(), format!("2023-01-15 10:20:30{a}"), "left-over-byte"));
        rej.push((Ty::IntervalYM, "YYYY-MM".into(), format!("+0001-11{a}"), "left-over-byte"));
        rej.push((Ty::IntervalDT, "DD HH24:MI:SS".into(), format!("+01 10:20:30{a}"), "left-over-byte"));
    }
    ctx.bound("rejections", json!(rej.len()));
    let rej_r = &rej;
    let r = ctx.sweep_each("rejections", "single-component perturbations to out-of-domain values, disagreeing redundant fields, repeated field codes, output-only / inapplicable codes, left-over input", rej.len() as u64, 16, |idx, acc| {
        let (ty, pic, text, why) = &rej_r[idx as usize];
        acc.states += 1;
        let fmt = match guard(|| Formatter::try_new(pic)) { Ok(Ok(f)) => f, _ => { acc.fail("C05:picture-rejected", idx, || (format!("Formatter::try_new({pic:?})"), "Ok".into(), "Err".into(), String::new())); return; } };
        parse_case(acc, idx, why, *ty, &fmt, pic, text, None);
    });
    ctx.require(&r, &["rejected"]);

    // hidden state: every ordered pair of parse calls (failing ones included) on a fresh thread against the lone call
    crate::histpairs::pairwise(ctx, "C05", "parse", crate::histpairs::calls_parse());
}
