//! The 12 truncation / rounding units, their dispatch onto the three date-bearing types, and
//! the reference results (boundary predicates + documented midpoints).

use crate::common::*;
use refmodel::calendar::{Cal, DayUnit, DAY_UNITS};
use sqldatetime::{Date, Error, OracleDate, Round, Timestamp, Trunc};

pub const UNIT_NAMES: [&str; 12] = [
    "century", "year", "iso_year", "quarter", "month", "week", "iso_week", "month_start_week", "sunday_start_week", "day", "hour", "minute",
];

// Dispatch uses METHOD-CALL syntax (`v.trunc_hour()`), which is what users write: an inherent
// method of the same name would shadow the trait method there, and must then behave the same.
// The fully qualified trait path is exercised separately (`ufcs_*`) and compared.
macro_rules! dispatch {
    ($name:ident, $ty:ty, $tr:ident, [$($m:ident),*]) => {
        pub fn $name(u: usize, v: $ty) -> Result<$ty, Error> {
            #[allow(unused_imports)]
            use sqldatetime::$tr;
            let fs: [fn($ty) -> Result<$ty, Error>; 12] = [$(|x: $ty| x.$m()),*];
            fs[u](v)
        }
    };
}

macro_rules! dispatch_ufcs {
    ($name:ident, $ty:ty, $tr:ident, [$($m:ident),*]) => {
        pub fn $name(u: usize, v: $ty) -> Result<$ty, Error> {
            let fs: [fn($ty) -> Result<$ty, Error>; 12] = [$(<$ty as $tr>::$m),*];
            fs[u](v)
        }
    };
}

dispatch_ufcs!(ufcs_trunc_date, Date, Trunc, [trunc_century, trunc_year, trunc_iso_year, trunc_quarter, trunc_month, trunc_week, trunc_iso_week, trunc_month_start_week, trunc_sunday_start_week, trunc_day, trunc_hour, trunc_minute]);
dispatch_ufcs!(ufcs_trunc_ts, Timestamp, Trunc, [trunc_century, trunc_year, trunc_iso_year, trunc_quarter, trunc_month, trunc_week, trunc_iso_week, trunc_month_start_week, trunc_sunday_start_week, trunc_day, trunc_hour, trunc_minute]);
dispatch_ufcs!(ufcs_trunc_od, OracleDate, Trunc, [trunc_century, trunc_year, trunc_iso_year, trunc_quarter, trunc_month, trunc_week, trunc_iso_week, trunc_month_start_week, trunc_sunday_start_week, trunc_day, trunc_hour, trunc_minute]);
dispatch_ufcs!(ufcs_round_date, Date, Round, [round_century, round_year, round_iso_year, round_quarter, round_month, round_week, round_iso_week, round_month_start_week, round_sunday_start_week, round_day, round_hour, round_minute]);
dispatch_ufcs!(ufcs_round_ts, Timestamp, Round, [round_century, round_year, round_iso_year, round_quarter, round_month, round_week, round_iso_week, round_month_start_week, round_sunday_start_week, round_day, round_hour, round_minute]);
dispatch_ufcs!(ufcs_round_od, OracleDate, Round, [round_century, round_year, round_iso_year, round_quarter, round_month, round_week, round_iso_week, round_month_start_week, round_sunday_start_week, round_day, round_hour, round_minute]);

dispatch!(trunc_date, Date, Trunc, [trunc_century, trunc_year, trunc_iso_year, trunc_quarter, trunc_month, trunc_week, trunc_iso_week, trunc_month_start_week, trunc_sunday_start_week, trunc_day, trunc_hour, trunc_minute]);
dispatch!(trunc_ts, Timestamp, Trunc, [trunc_century, trunc_year, trunc_iso_year, trunc_quarter, trunc_month, trunc_week, trunc_iso_week, trunc_month_start_week, trunc_sunday_start_week, trunc_day, trunc_hour, trunc_minute]);
dispatch!(trunc_od, OracleDate, Trunc, [trunc_century, trunc_year, trunc_iso_year, trunc_quarter, trunc_month, trunc_week, trunc_iso_week, trunc_month_start_week, trunc_sunday_start_week, trunc_day, trunc_hour, trunc_minute]);
dispatch!(round_date, Date, Round, [round_century, round_year, round_iso_year, round_quarter, round_month, round_week, round_iso_week, round_month_start_week, round_sunday_start_week, round_day, round_hour, round_minute]);
dispatch!(round_ts, Timestamp, Round, [round_century, round_year, round_iso_year, round_quarter, round_month, round_week, round_iso_week, round_month_start_week, round_sunday_start_week, round_day, round_hour, round_minute]);
dispatch!(round_od, OracleDate, Round, [round_century, round_year, round_iso_year, round_quarter, round_month, round_week, round_iso_week, round_month_start_week, round_sunday_start_week, round_day, round_hour, round_minute]);

/// Per-date reference data: latest boundary <= n and earliest boundary > n for the 9 day units.
#[derive(Clone, Copy)]
pub struct DayRef {
    pub tr: [Option<i32>; 9],
    pub nx: [i32; 9],
}

pub fn day_ref(w: &World, n: i32) -> DayRef {
    let mut tr = [None; 9];
    let mut nx = [0; 9];
    for (i, u) in DAY_UNITS.iter().enumerate() {
        tr[i] = w.bounds.trunc(*u, n);
        nx[i] = w.bounds.next(*u, n);
    }
    DayRef { tr, nx }
}

/// Reference truncation of the instant (day c.n, time-of-day t µs): `None` = must fail
/// (no boundary at or after 0001-01-01).
#[inline]
pub fn ref_trunc(dr: &DayRef, u: usize, c: &Cal, t: i64) -> Option<i128> {
    match u {
        0..=8 => dr.tr[u].map(|b| b as i128 * US_DAY as i128),
        9 => Some(c.n as i128 * US_DAY as i128),
        10 => Some(c.n as i128 * US_DAY as i128 + (t / US_HOUR * US_HOUR) as i128),
        _ => Some(c.n as i128 * US_DAY as i128 + (t / US_MIN * US_MIN) as i128),
    }
}

/// What the rounding reference allows.
#[derive(Clone, Copy, Debug, PartialEq)]
pub enum Exp {
    /// exactly this instant (µs since epoch)
    Val(i128),
    /// must fail
    Fail,
    /// shortened week: either adjacent boundary (µs); `fail_ok` when the later one is after the maximum
    Either(Option<i128>, i128, bool),
}

/// Reference rounding.  `max_us`: largest representable instant of the type (a chosen boundary
/// after it must be reported as an error).
pub fn ref_round(w: &World, dr: &DayRef, u: usize, c: &Cal, t: i64, max_us: i128) -> Exp {
    let day = US_DAY as i128;
    let inst = c.n as i128 * day + t as i128;
    let fin = |v: i128| if v > max_us { Exp::Fail } else { Exp::Val(v) };
    match u {
        9 => fin(if t >= 12 * US_HOUR { (c.n as i128 + 1) * day } else { c.n as i128 * day }),
        10 => {
            let base = c.n as i128 * day + (t / US_HOUR * US_HOUR) as i128;
            fin(if t % US_HOUR >= 30 * US_MIN { base + US_HOUR as i128 } else { base })
        }
        11 => {
            let base = c.n as i128 * day + (t / US_MIN * US_MIN) as i128;
            fin(if t % US_MIN >= 30 * US_SEC { base + US_MIN as i128 } else { base })
        }
        _ => {
            let tr = dr.tr[u];
            let nx = dr.nx[u];
            if t == 0 && tr == Some(c.n) {
                return Exp::Val(inst); // already on a boundary
            }
            let up = match DAY_UNITS[u] {
                DayUnit::Century => {
                    // year 51 of the century onwards
                    let ty = w.cal.at(tr.expect("century boundary exists")).y;
                    c.y - ty + 1 >= 51
                }
                DayUnit::Year => c.m >= 7,
                DayUnit::Quarter => {
                    let q = (c.m - 1) % 3;
                    q == 2 || (q == 1 && c.d >= 16)
                }
                DayUnit::Month => c.d >= 16,
                DayUnit::IsoYear => {
                    if c.m >= 7 {
                        // the ISO year that belongs to the following calendar year
                        let jan4 = w.cal.day_number(c.y + 1, 1, 4);
                        let b = w.bounds.trunc(DayUnit::IsoYear, jan4).expect("iso year start");
                        return fin(b as i128 * day);
                    } else {
                        return match tr {
                            Some(b) => Exp::Val(b as i128 * day),
                            None => Exp::Fail,
                        };
                    }
                }
                DayUnit::Week | DayUnit::IsoWeek | DayUnit::MonthWeek | DayUnit::SundayWeek => {
                    let t_day = match tr {
                        Some(b) => b,
                        None => nx - 7, // only the Sunday week before 0001-01-07
                    };
                    if nx - t_day == 7 {
                        // full week: fifth day (dates) / noon of the fourth day (instants)
                        (c.n - t_day) as i128 * day + t as i128 >= 3 * day + day / 2
                    } else {
                        let lo = tr.map(|b| b as i128 * day);
                        let hi = nx as i128 * day;
                        return Exp::Either(lo, hi, hi > max_us);
                    }
                }
            };
            if up {
                fin(nx as i128 * day)
            } else {
                match tr {
                    Some(b) => Exp::Val(b as i128 * day),
                    // the boundary the rule chooses lies before 0001-01-01 (only the Sunday week of the first six
                    // days): no value can be returned for it.  The property ("fails only when the chosen boundary
                    // lies after the maximum") did not foresee this end; failing is what the crate does, and the
                    // only in-range adjacent boundary is the other conceivable answer.  Both are admitted.
                    None => Exp::Either(None, nx as i128 * day, true),
                }
            }
        }
    }
}

/// Days on which every second is explored for the sub-day units.
pub fn selected_days(w: &World) -> Vec<i32> {
    let cal = &w.cal;
    let mut v = vec![cal.min_day, cal.min_day + 1, cal.max_day - 1, cal.max_day, -1, 0, 1];
    for (y, m, d) in [
        (2000, 2, 29), (1999, 12, 31), (2000, 1, 1), (2000, 12, 31), (1900, 12, 31), (1901, 1, 1), (1950, 12, 31), (1951, 1, 1),
        (2020, 12, 31), (2021, 1, 3), (2015, 12, 31), (1970, 6, 30), (1970, 7, 1), (2024, 2, 15), (2024, 2, 16), (2024, 5, 15),
        (2024, 5, 16), (2024, 11, 15), (2024, 11, 16), (1969, 12, 28), (4, 2, 29), (9999, 1, 1),
    ] {
        v.push(cal.day_number(y, m, d));
    }
    v.sort();
    v.dedup();
    v
}

/// Windows of consecutive microseconds explored completely by C10 / C11 (start instant in µs since
/// the epoch).  Each window is one minute long and straddles a decision point of several units.
pub fn micro_windows(w: &World) -> Vec<(&'static str, i64)> {
    let cal = &w.cal;
    let at = |y, m, d, hh: i64, mm: i64, ss: i64| cal.day_number(y, m, d) as i64 * US_DAY + hh * US_HOUR + mm * US_MIN + ss * US_SEC;
    vec![
        // crosses the epoch, a year / quarter / month start and midnight; minute midpoint 23:59:30
        ("1969-12-31 23:59:15 .. 1970-01-01 00:00:15", at(1969, 12, 31, 23, 59, 15)),
        // Thursday noon: midpoint of the day and of the ISO week; minute midpoint 11:59:30
        ("2024-02-29 11:59:15 .. 12:00:15", at(2024, 2, 29, 11, 59, 15)),
        // half past the last hour of the last day: rounding up leaves the supported range
        ("9999-12-31 23:29:15 .. 23:30:15", at(9999, 12, 31, 23, 29, 15)),
    ]
}

/// Thorough tier: one hour of consecutive microseconds across the epoch.
pub fn micro_hour_window(w: &World) -> (&'static str, i64) {
    ("1969-12-31 23:30:00 .. 1970-01-01 00:30:00", w.cal.day_number(1969, 12, 31) as i64 * US_DAY + 23 * US_HOUR + 30 * US_MIN)
}

/// Thorough tier: the days of one full 400-year Gregorian cycle (146,097 days, a whole number of weeks).
pub fn cycle_days(w: &World) -> (i32, i32) {
    (w.cal.day_number(1601, 1, 1), w.cal.day_number(2000, 12, 31))
}
