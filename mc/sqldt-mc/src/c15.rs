//! C15 — serialization round-trips and deserialization never yields an out-of-range value.

use crate::common::*;
use crate::pools::*;
use crate::probe::*;
use explorer::serde_json::json;
use explorer::{Acc, Ctx};
use refmodel::picture::{render, tokenize, Ty, ALL_TYPES};
use refmodel::ranges as rg;
use sqldatetime::{Date, IntervalDT, IntervalYM, OracleDate, Time, Timestamp};

thread_local! { static HEAVY_ALL: std::cell::Cell<bool> = std::cell::Cell::new(false); }

fn layout(ty: Ty) -> &'static str {
    match ty {
        Ty::Date => "YYYY-MM-DD",
        Ty::Time => "HH24:MI:SS.FF6",
        Ty::Timestamp => "YYYY-MM-DD HH24:MI:SS.FF6",
        Ty::IntervalYM => "YYYY-MM",
        Ty::IntervalDT => "DD HH24:MI:SS.FF6",
        Ty::OracleDate => "YYYY-MM-DD HH24:MI:SS",
    }
}

fn in_range(ty: Ty, raw: i128) -> bool {
    match ty {
        Ty::Date => rg::date_ok(raw),
        Ty::Time => rg::time_ok(raw),
        Ty::Timestamp => rg::ts_ok(raw),
        Ty::IntervalYM => rg::ym_ok(raw),
        Ty::IntervalDT => rg::dt_ok(raw),
        Ty::OracleDate => rg::od_ok(raw),
    }
}

macro_rules! with_value {
    ($tv:expr, $v:ident, $body:expr) => {
        match $tv.ty {
            Ty::Date => { let $v = Date::try_from_days($tv.raw as i32).unwrap(); $body }
            Ty::Time => { let $v = Time::try_from_usecs($tv.raw).unwrap(); $body }
            Ty::Timestamp => { let $v = Timestamp::try_from_usecs($tv.raw).unwrap(); $body }
            Ty::IntervalYM => { let $v = IntervalYM::try_from_months($tv.raw as i32).unwrap(); $body }
            Ty::IntervalDT => { let $v = IntervalDT::try_from_usecs($tv.raw).unwrap(); $body }
            Ty::OracleDate => { let $v = OracleDate::try_from_usecs($tv.raw).unwrap(); $body }
        }
    };
}

fn json_decode(ty: Ty, s: &str) -> Result<i64, String> {
    Ok(match ty {
        Ty::Date => serde_json::from_str::<Date>(s).map_err(|e| e.to_string())?.days() as i64,
        Ty::Time => serde_json::from_str::<Time>(s).map_err(|e| e.to_string())?.usecs(),
        Ty::Timestamp => serde_json::from_str::<Timestamp>(s).map_err(|e| e.to_string())?.usecs(),
        Ty::IntervalYM => serde_json::from_str::<IntervalYM>(s).map_err(|e| e.to_string())?.months() as i64,
        Ty::IntervalDT => serde_json::from_str::<IntervalDT>(s).map_err(|e| e.to_string())?.usecs(),
        Ty::OracleDate => serde_json::from_str::<OracleDate>(s).map_err(|e| e.to_string())?.usecs(),
    })
}

/// The same document through serde_json's other entry points: an owned `Value` (transient
/// string), a reader (no borrowing possible), and an escaped spelling of the same string.
fn json_decode_other_paths(ty: Ty, doc: &str) -> Result<[i64; 3], String> {
    let val: serde_json::Value = serde_json::from_str(doc).map_err(|e| e.to_string())?;
    let escaped = doc.replacen('-', "\\u002d", 1).replacen(':', "\\u003a", 1);
    macro_rules! go {
        ($t:ty, $get:expr) => {{
            let a: $t = serde_json::from_value(val.clone()).map_err(|e| format!("from_value: {e}"))?;
            let b: $t = serde_json::from_reader(doc.as_bytes()).map_err(|e| format!("from_reader: {e}"))?;
            let c: $t = serde_json::from_str(&escaped).map_err(|e| format!("from_str(escaped {escaped}): {e}"))?;
            let g = $get;
            [g(a), g(b), g(c)]
        }};
    }
    Ok(match ty {
        Ty::Date => go!(Date, |x: Date| x.days() as i64),
        Ty::Time => go!(Time, |x: Time| x.usecs()),
        Ty::Timestamp => go!(Timestamp, |x: Timestamp| x.usecs()),
        Ty::IntervalYM => go!(IntervalYM, |x: IntervalYM| x.months() as i64),
        Ty::IntervalDT => go!(IntervalDT, |x: IntervalDT| x.usecs()),
        Ty::OracleDate => go!(OracleDate, |x: OracleDate| x.usecs()),
    })
}

/// Round trips inside containers (sequence, option, map value, map key, tuple) in both forms.
fn container_round_trips(tv: &TV) -> Result<(), String> {
    use std::collections::BTreeMap;
    macro_rules! go {
        ($v:expr, $t:ty) => {{
            let v: $t = $v;
            let seq = vec![v, v];
            let js = serde_json::to_string(&seq).map_err(|e| e.to_string())?;
            if serde_json::from_str::<Vec<$t>>(&js).map_err(|e| format!("json Vec: {e}"))? != seq { return Err("json Vec round trip".into()); }
            let opt = Some(v);
            let js = serde_json::to_string(&opt).map_err(|e| e.to_string())?;
            if serde_json::from_str::<Option<$t>>(&js).map_err(|e| format!("json Option: {e}"))? != opt { return Err("json Option round trip".into()); }
            if serde_json::from_str::<Option<$t>>("null").map_err(|e| format!("json null: {e}"))?.is_some() { return Err("json null".into()); }
            let mut mv: BTreeMap<String, $t> = BTreeMap::new();
            mv.insert("k".into(), v);
            let js = serde_json::to_string(&mv).map_err(|e| e.to_string())?;
            if serde_json::from_str::<BTreeMap<String, $t>>(&js).map_err(|e| format!("json map value: {e}"))? != mv { return Err("json map value round trip".into()); }
            let mut mk: BTreeMap<$t, i32> = BTreeMap::new();
            mk.insert(v, 7);
            let js = serde_json::to_string(&mk).map_err(|e| format!("json map key serialize: {e}"))?;
            if serde_json::from_str::<BTreeMap<$t, i32>>(&js).map_err(|e| format!("json map key {js}: {e}"))? != mk { return Err("json map key round trip".into()); }
            let tup = (v, 5u8, v);
            let b = bincode::serialize(&tup).map_err(|e| e.to_string())?;
            if bincode::deserialize::<($t, u8, $t)>(&b).map_err(|e| format!("bincode tuple: {e}"))? != tup { return Err("bincode tuple round trip".into()); }
            let b = bincode::serialize(&seq).map_err(|e| e.to_string())?;
            if bincode::deserialize::<Vec<$t>>(&b).map_err(|e| format!("bincode Vec: {e}"))? != seq { return Err("bincode Vec round trip".into()); }
            let b = bincode::serialize(&opt).map_err(|e| e.to_string())?;
            if bincode::deserialize::<Option<$t>>(&b).map_err(|e| format!("bincode Option: {e}"))? != opt { return Err("bincode Option round trip".into()); }
            Ok(())
        }};
    }
    match tv.ty {
        Ty::Date => go!(Date::try_from_days(tv.raw as i32).unwrap(), Date),
        Ty::Time => go!(Time::try_from_usecs(tv.raw).unwrap(), Time),
        Ty::Timestamp => go!(Timestamp::try_from_usecs(tv.raw).unwrap(), Timestamp),
        Ty::IntervalYM => go!(IntervalYM::try_from_months(tv.raw as i32).unwrap(), IntervalYM),
        Ty::IntervalDT => go!(IntervalDT::try_from_usecs(tv.raw).unwrap(), IntervalDT),
        Ty::OracleDate => go!(OracleDate::try_from_usecs(tv.raw).unwrap(), OracleDate),
    }
}

/// Deserialize from one of serde's value deserializers (a data format that hands the visitor a
/// typed scalar whatever hint it was given): Ok(raw) or Err.
fn value_decode<'de, D>(ty: Ty, d: D) -> Result<i64, String>
where
    D: serde::Deserializer<'de>,
    D::Error: std::fmt::Display,
{
    use serde::Deserialize;
    Ok(match ty {
        Ty::Date => Date::deserialize(d).map_err(|e| e.to_string())?.days() as i64,
        Ty::Time => Time::deserialize(d).map_err(|e| e.to_string())?.usecs(),
        Ty::Timestamp => Timestamp::deserialize(d).map_err(|e| e.to_string())?.usecs(),
        Ty::IntervalYM => IntervalYM::deserialize(d).map_err(|e| e.to_string())?.months() as i64,
        Ty::IntervalDT => IntervalDT::deserialize(d).map_err(|e| e.to_string())?.usecs(),
        Ty::OracleDate => OracleDate::deserialize(d).map_err(|e| e.to_string())?.usecs(),
    })
}

fn bin_decode(ty: Ty, b: &[u8]) -> Result<i64, String> {
    Ok(match ty {
        Ty::Date => bincode::deserialize::<Date>(b).map_err(|e| e.to_string())?.days() as i64,
        Ty::Time => bincode::deserialize::<Time>(b).map_err(|e| e.to_string())?.usecs(),
        Ty::Timestamp => bincode::deserialize::<Timestamp>(b).map_err(|e| e.to_string())?.usecs(),
        Ty::IntervalYM => bincode::deserialize::<IntervalYM>(b).map_err(|e| e.to_string())?.months() as i64,
        Ty::IntervalDT => bincode::deserialize::<IntervalDT>(b).map_err(|e| e.to_string())?.usecs(),
        Ty::OracleDate => bincode::deserialize::<OracleDate>(b).map_err(|e| e.to_string())?.usecs(),
    })
}

fn raw_bytes(ty: Ty, raw: i64) -> Vec<u8> {
    match ty {
        Ty::Date | Ty::IntervalYM => (raw as i32).to_le_bytes().to_vec(),
        _ => raw.to_le_bytes().to_vec(),
    }
}

/// serialize -> deserialize, both forms; the human-readable form must be the fixed layout and
/// the binary form the raw count.
fn round_trip(acc: &mut Acc, idx: u64, tv: &TV, toks: &[refmodel::picture::Tok]) {
    // the additional decode paths are exercised on every 997th case of the big sweeps and on every pool value
    let heavy = idx % 997 == 0 || HEAVY_ALL.with(|h| h.get());
    acc.t(4);
    acc.traces += 1;
    let want_text = render(toks, tv.ty, &tv.fields()).expect("layout applies");
    let res = guard(|| -> Result<(), String> {
        let js = with_value!(tv, v, serde_json::to_string(&v)).map_err(|e| format!("json serialize: {e}"))?;
        if js != format!("\"{want_text}\"") {
            return Err(format!("human-readable form {js} is not the fixed layout \"{want_text}\""));
        }
        let back = json_decode(tv.ty, &js).map_err(|e| format!("json deserialize of {js}: {e}"))?;
        if back != tv.raw {
            return Err(format!("json round trip gave {back}"));
        }
        if heavy {
            let others = json_decode_other_paths(tv.ty, &js)?;
            if others != [tv.raw; 3] {
                return Err(format!("from_value / from_reader / escaped-string decode gave {others:?}"));
            }
            container_round_trips(tv)?;
            // two values in one binary stream: the encoding must be self-delimiting at its documented width
            let pair = with_value!(tv, v, bincode::serialize(&(v, v))).map_err(|e| format!("bincode serialize pair: {e}"))?;
            let mut want = raw_bytes(tv.ty, tv.raw);
            want.extend(raw_bytes(tv.ty, tv.raw));
            if pair != want {
                return Err(format!("binary form of a pair {pair:?} is not two raw counts"));
            }
        }
        let bin = with_value!(tv, v, bincode::serialize(&v)).map_err(|e| format!("bincode serialize: {e}"))?;
        if bin != raw_bytes(tv.ty, tv.raw) {
            return Err(format!("binary form {bin:?} is not the raw count"));
        }
        let back = bin_decode(tv.ty, &bin).map_err(|e| format!("bincode deserialize: {e}"))?;
        if back != tv.raw {
            return Err(format!("bincode round trip gave {back}"));
        }
        Ok(())
    });
    acc.cls("round_trip");
    match res {
        Ok(Ok(())) => {}
        Ok(Err(msg)) => acc.fail(&format!("C15:{:?}:round-trip-or-layout-broken", tv.ty), idx, || (format!("serialize/deserialize {}", tv.show()), format!("identity; text \"{want_text}\"; binary = raw count"), msg.clone(), String::new())),
        Err(()) => acc.fail(&format!("C15:{:?}:panic", tv.ty), idx, || (format!("serialize/deserialize {}", tv.show()), "no panic".into(), "panic".into(), String::new())),
    }
}

pub fn run(ctx: &mut Ctx) {
    let w = world();
    let cal = &w.cal;
    let seed = ctx.seed;
    ctx.rule("a case is one value (round trip, both forms) or one payload (decode) at a distinct sweep index; non-trivial = a decode of a payload that is not the canonical encoding of an in-range value (must fail or yield an in-range value)");
    ctx.assume("serde_json and bincode (default configuration: fixed-width little-endian integers) are trusted; the fixed layouts come from the reference renderer");
    let toks: Vec<Vec<refmodel::picture::Tok>> = ALL_TYPES.iter().map(|t| tokenize(layout(*t).as_bytes()).unwrap()).collect();
    let tk = |ty: Ty| &toks[ALL_TYPES.iter().position(|x| *x == ty).unwrap()];

    // round trips
    let total = cal.total_days() as u64;
    let r = ctx.sweep("all_dates_round_trip", "all dates (Date) and all dates x {00:00:00, 12:34:56, 23:59:59} (OracleDate) through JSON and bincode", total, 2048, |range, acc| {
        for idx in range {
            let n = cal.min_day as i64 + idx as i64;
            acc.states += 1;
            round_trip(acc, idx, &TV { ty: Ty::Date, raw: n }, tk(Ty::Date));
            for t in [0, 12 * US_HOUR + 34 * US_MIN + 56 * US_SEC, US_DAY - US_SEC] {
                round_trip(acc, idx, &TV { ty: Ty::OracleDate, raw: n * US_DAY + t }, tk(Ty::OracleDate));
            }
            acc.nontrivial += 1;
        }
    });
    ctx.require(&r, &["round_trip"]);
    ctx.sweep_each("all_seconds_round_trip", "all 86,400 seconds x µs {0, 1, 999999} (Time)", 86_400 * 3, 4096, |idx, acc| {
        acc.states += 1;
        round_trip(acc, idx, &TV { ty: Ty::Time, raw: (idx / 3) as i64 * US_SEC + [0, 1, 999_999][(idx % 3) as usize] }, tk(Ty::Time));
        acc.nontrivial += 1;
    });
    let stride: i64 = 86_399_999_983;
    let tmin = cal.min_day as i64 * US_DAY;
    let tmax = (cal.max_day as i64 + 1) * US_DAY - 1;
    let nts = ((tmax - tmin) / stride) as u64 + 1;
    ctx.bound("timestamp_stride", json!("every 86,399.999983 s across the whole range (coprime to day and second) + boundary pool"));
    ctx.sweep_each("strided_timestamps_round_trip", "timestamps every 86,399.999983 s across the range", nts, 4096, |idx, acc| {
        acc.states += 1;
        round_trip(acc, idx, &TV { ty: Ty::Timestamp, raw: tmin + idx as i64 * stride }, tk(Ty::Timestamp));
        acc.nontrivial += 1;
    });
    let mut pool: Vec<TV> = Vec::new();
    pool.extend(pool_ts(w, seed).into_iter().map(|u| TV { ty: Ty::Timestamp, raw: u }));
    pool.extend(pool_od(w, seed).into_iter().map(|u| TV { ty: Ty::OracleDate, raw: u }));
    pool.extend(pool_dt(seed).into_iter().map(|u| TV { ty: Ty::IntervalDT, raw: u }));
    pool.extend(pool_ym(seed).into_iter().map(|u| TV { ty: Ty::IntervalYM, raw: u as i64 }));
    pool.extend(pool_times(seed).into_iter().map(|u| TV { ty: Ty::Time, raw: u }));
    pool.extend(pool_dates(w, seed).into_iter().map(|u| TV { ty: Ty::Date, raw: u as i64 }));
    for m in (-2_136_000_000i64..=2_136_000_000).step_by(997 * 1000) { pool.push(TV { ty: Ty::IntervalYM, raw: m }); }
    for m in -2000i64..=2000 { pool.push(TV { ty: Ty::IntervalYM, raw: m }); }
    for d in 0i64..=1100 { pool.push(TV { ty: Ty::IntervalDT, raw: d * US_DAY + 1 }); pool.push(TV { ty: Ty::IntervalDT, raw: -(d * US_DAY + US_DAY - 1) }); }
    pool.extend(crate::c04::interval_width_values());
    for s in (-172_800i64..=172_800).step_by(37) { pool.push(TV { ty: Ty::IntervalDT, raw: s * US_SEC + if s < 0 { -999_999 } else { 1 } }); }
    let pool_r = &pool;
    ctx.sweep_each("pools_round_trip", "boundary pools of all six types, strided year-month intervals, seconds within +/-2 days (IntervalDT)", pool.len() as u64, 256, |idx, acc| {
        acc.states += 1;
        let tv = &pool_r[idx as usize];
        HEAVY_ALL.with(|h| h.set(true));
        round_trip(acc, idx, tv, tk(tv.ty));
        HEAVY_ALL.with(|h| h.set(false));
        acc.nontrivial += 1;
    });

    decode_integers(ctx, "C15", false);

    // hidden state: every ordered pair of encode / decode calls on a fresh thread against the lone call
    crate::histpairs::pairwise(ctx, "C15", "encode_and_decode", crate::histpairs::calls_serde());

    // JSON: malformed strings with long non-ASCII tails (an error path that echoes or slices the input must not panic)
    let stems: Vec<(Ty, &str)> = vec![
        (Ty::Date, "2020/01/01"), (Ty::Date, "2020-01-01"), (Ty::Date, "2020-01x"), (Ty::Date, ""), (Ty::Time, "10:20:30,5"), (Ty::Time, "10.20"), (Ty::Time, ""),
        (Ty::Timestamp, "2020-01-01T10:20:30"), (Ty::Timestamp, "2020-01-01 10:20:30.5"), (Ty::OracleDate, "2020-01-01 10:20:30"), (Ty::OracleDate, "2020/01/01"),
        (Ty::IntervalYM, "+0001-05"), (Ty::IntervalYM, "0001/05"), (Ty::IntervalDT, "+01 02:03:04.000005"), (Ty::IntervalDT, "+01T02:03"),
    ];
    let pads: [&str; 4] = ["\u{e9}", "\u{1f980}", "a\u{e9}", "\u{20ac} "];
    let max_pad: u64 = 72;
    let stems_r = &stems;
    let r = ctx.sweep_each("json_long_non_ascii_strings", "for each type: well-formed and malformed stems followed by 0..=72 repetitions of a 2-, 4-, 1+2- and 3+1-byte pattern (every byte alignment of every cut-off up to 288 bytes), as JSON strings and through the value deserializers: an error or an in-range value, never a panic", stems.len() as u64 * 4 * (max_pad + 1), 64, |idx, acc| {
        let k = (idx % (max_pad + 1)) as usize;
        let pad = pads[((idx / (max_pad + 1)) % 4) as usize];
        let (ty, stem) = stems_r[(idx / (max_pad + 1) / 4) as usize];
        let text = format!("{stem}{}", pad.repeat(k));
        acc.states += 1;
        acc.t(2);
        acc.traces += 1;
        let doc = explorer::serde_json::to_string(&text).unwrap();
        let a = guard(|| json_decode(ty, &doc));
        let b = guard(|| value_decode(ty, serde::de::value::StrDeserializer::<serde::de::value::Error>::new(&text)));
        for (how, got) in [("serde_json::from_str", a), ("StrDeserializer", b)] {
            match got {
                Ok(Ok(v)) => { if in_range(ty, v as i128) { acc.cls("decoded_in_range") } else { acc.fail("C15:json-decode:yields-out-of-range-value", idx, || (format!("{how}::<{ty:?}>({text:?})"), "Err or an in-range value".into(), format!("Ok({v})"), String::new())) } }
                Ok(Err(_)) => { acc.cls("rejected"); acc.nontrivial += 1; }
                Err(()) => acc.fail("C15:json-decode:panic", idx, || (format!("{how}::<{ty:?}>({text:?})"), "Err or a value".into(), "panic".into(), format!("let r: Result<{ty:?}, _> = serde_json::from_str({doc:?});"))),
            }
        }
    });
    ctx.require(&r, &["rejected", "decoded_in_range"]);

    // JSON: complete single-edit neighbourhood of canonical strings
    let symbols: Vec<&str> = vec!["0", "1", "2", "3", "5", "9", "-", "+", ":", ".", " ", "T", "/", ",", "A", "e", "x", "\\\\", "\\u00e9", ""];
    let mut bases: Vec<(Ty, String)> = Vec::new();
    for tv in pool.iter().filter(|_| true).step_by(3).take(400) {
        bases.push((tv.ty, render(tk(tv.ty), tv.ty, &tv.fields()).unwrap()));
    }
    for ty in ALL_TYPES {
        for extra in ["", " ", "null", "0", "12345", "-1", "1e3", "true", "[]", "{}", "\"\""] {
            bases.push((ty, format!("\u{1}{extra}"))); // marker: raw JSON document, not a string body
        }
    }
    ctx.bound("json_edit_neighbourhood", json!({"base_strings": bases.len(), "symbols": symbols.len()}));
    let (bases_r, sym_r) = (&bases, &symbols);
    let r = ctx.sweep_each("json_single_edit_neighbourhood", "canonical strings of pool values: every single substitution / deletion / insertion of 20 symbols at every position, plus JSON numbers, null, booleans, empty string: decode fails or yields an in-range value", bases.len() as u64, 4, |idx, acc| {
        let (ty, base) = &bases_r[idx as usize];
        acc.states += 1;
        let mut check = |acc: &mut Acc, doc: String| {
            acc.t(1);
            acc.traces += 1;
            let got = guard(|| json_decode(*ty, &doc));
            match &got {
                Ok(Ok(v)) => {
                    if in_range(*ty, *v as i128) { acc.cls("decoded_in_range") } else {
                        acc.fail("C15:json-decode:yields-out-of-range-value", idx, || (format!("serde_json::from_str::<{ty:?}>({doc:?})"), "Err or an in-range value".into(), format!("Ok({v})"), String::new()));
                    }
                }
                Ok(Err(_)) => { acc.cls("rejected"); acc.nontrivial += 1; }
                Err(()) => acc.fail("C15:json-decode:panic", idx, || (format!("serde_json::from_str::<{ty:?}>({doc:?})"), "Err or a value".into(), "panic".into(), String::new())),
            }
        };
        if let Some(raw_doc) = base.strip_prefix('\u{1}') {
            check(acc, raw_doc.to_string());
            return;
        }
        let chars: Vec<char> = base.chars().collect();
        check(acc, format!("\"{base}\""));
        for pos in 0..=chars.len() {
            for s in sym_r.iter() {
                // insertion
                if !s.is_empty() {
                    let t: String = chars[..pos].iter().collect::<String>() + s + &chars[pos..].iter().collect::<String>();
                    check(acc, format!("\"{t}\""));
                }
                // substitution ("" = deletion)
                if pos < chars.len() {
                    let t: String = chars[..pos].iter().collect::<String>() + s + &chars[pos + 1..].iter().collect::<String>();
                    check(acc, format!("\"{t}\""));
                }
            }
        }
    });
    ctx.require(&r, &["decoded_in_range", "rejected"]);
}

/// Decoding of raw integers (bincode) and of typed scalars (serde's value deserializers).
///
/// `strict == false` (C15): a payload that is the encoding of a value decodes to that value (round trip);
/// any other payload fails or yields *some* value inside the documented range (whole seconds for the
/// Oracle-style date).  `strict == true` (C02: "a mathematically out-of-range result is reported as an error,
/// never as a wrapped, clamped or otherwise invalid value"): in addition a decoded value must be the number
/// that was handed over (for the Oracle-style date: that instant floored to its second).
pub fn decode_integers(ctx: &mut Ctx, prop: &'static str, strict: bool) {
    let floor_sec = |n: i128| n.div_euclid(US_SEC as i128) * US_SEC as i128;
    // is Ok(v) an admissible decoding of the integer n for this type?
    let admissible = move |ty: Ty, n: i128, v: i128| -> bool {
        if !in_range(ty, v) { return false; }
        if in_range(ty, n) { return v == n; }
        if !strict { return true; }
        ty == Ty::OracleDate && n >= rg::TS_MIN && n <= rg::TS_MAX && v == floor_sec(n)
    };
    // binary decoding of raw integers
    let mut raws: Vec<(Ty, i64)> = Vec::new();
    for ty in ALL_TYPES {
        let (lo, hi): (i128, i128) = match ty {
            Ty::Date => (rg::DATE_MIN, rg::DATE_MAX), Ty::Time => (rg::TIME_MIN, rg::TIME_MAX), Ty::Timestamp => (rg::TS_MIN, rg::TS_MAX),
            Ty::IntervalYM => (-rg::YM_MAX, rg::YM_MAX), Ty::IntervalDT => (-rg::DT_MAX, rg::DT_MAX), Ty::OracleDate => (rg::OD_MIN, rg::OD_MAX),
        };
        let (tmin, tmax) = match ty { Ty::Date | Ty::IntervalYM => (i32::MIN as i64, i32::MAX as i64), _ => (i64::MIN, i64::MAX) };
        for v in [lo as i64, lo as i64 - 1, lo as i64 + 1, hi as i64, hi as i64 + 1, hi as i64 - 1, 0, 1, -1, tmin, tmin + 1, tmax, tmax - 1] {
            if v >= tmin && v <= tmax { raws.push((ty, v)); }
        }
        if ty == Ty::OracleDate {
            for base in [0i64, -US_SEC, rg::OD_MAX as i64, rg::OD_MIN as i64, 951_782_400_000_000] {
                for f in [1i64, 500_000, 999_999, -1, -999_999] { raws.push((ty, base + f)); }
            }
            raws.push((ty, rg::TS_MAX as i64));
        }
    }
    let raws_r = &raws;
    let r = ctx.sweep_each("binary_decode_raw_integers", "for each type every raw integer at the range limits +/-1, 0, +/-1 and the integer extremes (OracleDate: also sub-second payloads) through bincode: Ok(same value) when in range; otherwise Err or an in-range value (C02: Err, or the floored second for the Oracle-style date)", raws.len() as u64, 16, |idx, acc| {
        let (ty, raw) = raws_r[idx as usize];
        acc.states += 1;
        acc.t(1);
        acc.traces += 1;
        let valid = in_range(ty, raw as i128);
        let got = guard(|| bin_decode(ty, &raw_bytes(ty, raw)));
        let ok = match &got { Ok(Ok(v)) => admissible(ty, raw as i128, *v as i128), Ok(Err(_)) => !valid, Err(()) => false };
        if valid { acc.cls("decoded_in_range") } else { acc.cls("rejected_out_of_range"); acc.nontrivial += 1; }
        if !ok {
            let kind = match &got { Ok(Ok(v)) if !in_range(ty, *v as i128) => "yields-out-of-range-value", Ok(Ok(_)) if valid => "round-trip-changes-value", Ok(Ok(_)) => "wrapped-or-clamped-value", Err(()) => "panic", _ => "rejects-valid-payload" };
            acc.fail(&format!("{prop}:binary-decode:{kind}"), idx, || (format!("bincode::deserialize::<{ty:?}>({raw} as raw little-endian integer)"), if valid { format!("Ok({raw})") } else if strict { "Err (Oracle-style date: or the instant floored to its second)".into() } else { "Err or a value inside the documented range".into() }, format!("{got:?}"),
                format!("let r: Result<{ty:?}, _> = bincode::deserialize(&({raw}{}).to_le_bytes());", if matches!(ty, Ty::Date | Ty::IntervalYM) { "i32" } else { "i64" })));
        }
    });
    ctx.require(&r, &["decoded_in_range", "rejected_out_of_range"]);

    // typed scalars through serde's value deserializers: an integer of ANY width must decode to exactly
    // that count (when in range) or fail; nothing else may yield an out-of-range / sub-second value
    let ints: Vec<i128> = {
        let mut v: Vec<i128> = vec![0, 1, -1, 5, 1_500_000, -1_500_000, 999_999, 1_000_000, 86_399_999_999, 86_400_000_000, i8::MAX as i128, i16::MAX as i128, i16::MIN as i128,
            i32::MAX as i128, i32::MIN as i128, u32::MAX as i128, (1i128 << 32) + 5, (1i128 << 32) + 10, (1i128 << 33) - 7, i64::MAX as i128, i64::MIN as i128, u64::MAX as i128, u64::MAX as i128 - 999_999,
            (1i128 << 63) + 1_000_000, rg::DATE_MAX, rg::DATE_MIN, rg::DATE_MAX + 1, rg::TS_MAX, rg::TS_MAX + 1, rg::TS_MIN, rg::TS_MIN - 1, rg::OD_MAX, rg::OD_MAX + 1, rg::YM_MAX, rg::YM_MAX + 1, -rg::YM_MAX - 1, rg::DT_MAX, rg::DT_MAX + 1, -rg::DT_MAX - 1];
        v.sort();
        v.dedup();
        v
    };
    let ints_r = &ints;
    let r = ctx.sweep_each("typed_scalars_through_value_deserializers", "integers of every width (i8..i64, u8..u64), floats, bools, unit, bytes, borrowed / owned strings handed over by serde's value deserializers, for each type: an in-range count decodes to itself or fails; anything else fails or yields an in-range value (C02: fails)", ints.len() as u64 * 6, 8, |idx, acc| {
        use serde::de::value::{Error as VE, *};
        use serde::de::IntoDeserializer;
        let ty = ALL_TYPES[(idx % 6) as usize];
        let n = ints_r[(idx / 6) as usize];
        acc.states += 1;
        let mut outcomes: Vec<(&'static str, Result<Result<i64, String>, ()>)> = Vec::new();
        macro_rules! try_int { ($t:ty, $name:expr) => { if let Ok(x) = <$t>::try_from(n) { let d: <$t as IntoDeserializer<'_, VE>>::Deserializer = x.into_deserializer(); outcomes.push(($name, guard(|| value_decode(ty, d)))); } }; }
        try_int!(i8, "i8"); try_int!(i16, "i16"); try_int!(i32, "i32"); try_int!(i64, "i64"); try_int!(u8, "u8"); try_int!(u16, "u16"); try_int!(u32, "u32"); try_int!(u64, "u64");
        for (name, got) in outcomes {
            acc.t(1);
            acc.traces += 1;
            match got {
                Ok(Ok(v)) => {
                    if admissible(ty, n, v as i128) { acc.cls("decoded_in_range") } else {
                        let kind = if !in_range(ty, v as i128) { "yields-out-of-range-value" } else if in_range(ty, n) { "decodes-to-a-different-value" } else { "wrapped-or-clamped-value" };
                        acc.fail(&format!("{prop}:value-deserializer:integer-{kind}"), idx, || (format!("{ty:?}::deserialize({n}{name}.into_deserializer())"), if in_range(ty, n) { format!("Ok({n}) or Err") } else if strict { "Err".into() } else { "Err or an in-range value".into() }, format!("Ok({v})"), String::new()));
                    }
                }
                Ok(Err(_)) => { acc.cls("rejected"); acc.nontrivial += 1; }
                Err(()) => acc.fail(&format!("{prop}:value-deserializer:panic"), idx, || (format!("{ty:?}::deserialize({n}{name}.into_deserializer())"), "value or error".into(), "panic".into(), String::new())),
            }
        }
        if idx < 6 {
            // non-integer scalars: whatever comes back must be a valid value of the type
            let mut others: Vec<(&'static str, Result<Result<i64, String>, ()>)> = Vec::new();
            others.push(("f64", guard(|| value_decode(ty, F64Deserializer::<VE>::new(1.5e6)))));
            others.push(("bool", guard(|| value_decode(ty, BoolDeserializer::<VE>::new(true)))));
            others.push(("unit", guard(|| value_decode(ty, UnitDeserializer::<VE>::new()))));
            others.push(("char", guard(|| value_decode(ty, CharDeserializer::<VE>::new('1')))));
            for b in [&b""[..], &[0u8; 7][..], &[120, 121, 4, 22, 1, 1, 1][..], &[0xffu8; 8][..], &[1u8, 0, 0, 0][..], &[0x60, 0xe3, 0x16, 0, 0, 0, 0, 0][..]] {
                others.push(("bytes", guard(|| value_decode(ty, BytesDeserializer::<VE>::new(b)))));
                others.push(("borrowed bytes", guard(|| value_decode(ty, BorrowedBytesDeserializer::<VE>::new(b)))));
            }
            for sdoc in ["", "1", "1500000", "2021-04-22", "2021-04-22 13:07:09", "2021-04-22 13:07:09.123456", "13:07:09.123456", "+0001-05", "+01 02:03:04.000005"] {
                others.push(("str", guard(|| value_decode(ty, StrDeserializer::<VE>::new(sdoc)))));
                others.push(("borrowed str", guard(|| value_decode(ty, BorrowedStrDeserializer::<VE>::new(sdoc)))));
                others.push(("string", guard(|| value_decode(ty, StringDeserializer::<VE>::new(sdoc.to_string())))));
            }
            for (name, got) in others {
                acc.t(1);
                match got {
                    Ok(Ok(v)) => { if in_range(ty, v as i128) { acc.cls("decoded_in_range") } else { acc.fail(&format!("{prop}:value-deserializer:yields-out-of-range-value"), idx, || (format!("{ty:?}::deserialize(<{name}>)"), "Err or an in-range value".into(), format!("Ok({v})"), String::new())) } }
                    Ok(Err(_)) => acc.cls("rejected"),
                    Err(()) => acc.fail(&format!("{prop}:value-deserializer:panic"), idx, || (format!("{ty:?}::deserialize(<{name}>)"), "value or error".into(), "panic".into(), String::new())),
                }
            }
        }
    });
    ctx.require(&r, &["rejected"]);

}
