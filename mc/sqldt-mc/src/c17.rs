//! C17 — Date, Timestamp and the Oracle-style date agree on the same instant.

use crate::c12::interval_alphabet;
use crate::common::*;
use crate::pools::*;
use crate::units::*;
use explorer::serde_json::json;
use explorer::Ctx;
use sqldatetime::{Date, IntervalDT, IntervalYM, OracleDate, Time, Timestamp};
use std::cmp::Ordering;

macro_rules! cmp_all {
    ($a:expr, $b:expr, $exp:expr) => {{
        let e: Ordering = $exp;
        ($a == $b) == (e == Ordering::Equal)
            && ($a != $b) == (e != Ordering::Equal)
            && $a.partial_cmp(&$b) == Some(e)
            && ($a < $b) == (e == Ordering::Less)
            && ($a <= $b) == (e != Ordering::Greater)
            && ($a > $b) == (e == Ordering::Greater)
            && ($a >= $b) == (e != Ordering::Less)
    }};
}

type R = Result<Result<i64, ()>, ()>;

pub fn run(ctx: &mut Ctx) {
    let w = world();
    let cal = &w.cal;
    let seed = ctx.seed;
    ctx.rule("a case is one (value, shared operation, operand) tuple executed through two or three types at a distinct sweep index; non-trivial = the operation changes the value or fails (agreement on Err <=> Err is exercised)");
    ctx.assume("purely differential: results must correspond under date -> midnight timestamp and oracle date -> its timestamp (interval arithmetic on the oracle date: timestamp result floored to the second); no reference model involved");

    let ivs: Vec<i64> = interval_alphabet(seed);
    let kmax: i32 = if ctx.thorough() { 40 } else { 14 };
    let mut ks: Vec<i32> = (-kmax..=kmax).collect();
    ks.extend_from_slice(&[119_988, -119_988, 2_136_000_000, -2_136_000_000]);
    let times = pool_times(seed);
    let others_d = [cal.min_day, 0, cal.max_day, cal.day_number(2000, 2, 29)];
    let (ivs, ks, times) = (&ivs, &ks, &times);
    ctx.bound("operands", json!({"interval_dt": ivs.len(), "month_offsets": ks.len(), "times": times.len()}));
    let total = cal.total_days() as u64;

    let r = ctx.sweep("date_vs_timestamp_vs_oracle_at_midnight", "all dates x {24 trunc/round, last_day_of_month, +/-IntervalYM, +/-IntervalDT, +/-Time, differences} applied through Date, Timestamp at 00:00 and OracleDate at 00:00", total, 1024, |range, acc| {
        for idx in range {
            let n = cal.min_day + idx as i32;
            let d = Date::try_from_days(n).unwrap();
            let ts = Timestamp::new(d, Time::ZERO);
            let od = OracleDate::new(d, Time::ZERO);
            acc.states += 1;
            let mid = |x: Date| x.days() as i64 * US_DAY;
            let mut agree = |acc: &mut explorer::Acc, what: &dyn Fn() -> String, a: R, b: R, c: Option<R>| {
                acc.t(1);
                acc.traces += 1;
                let same = a == b && c.as_ref().map_or(true, |c| *c == a) && a.is_ok();
                match &a { Ok(Ok(v)) => { if *v != n as i64 * US_DAY { acc.nontrivial += 1; acc.cls("changed_value") } else { acc.cls("same_value") } } Ok(Err(())) => { acc.cls("all_fail"); acc.nontrivial += 1; } Err(()) => acc.cls("panic") }
                if !same {
                    let w = what();
                    let opname = w.split('(').next().unwrap_or("op").to_string();
                    acc.fail(&format!("C17:midnight:{opname}:types-disagree"), idx, || (format!("{w} on day {n} through Date / Timestamp@00:00 / OracleDate@00:00"), format!("Date: {a:?}"), format!("Timestamp: {b:?} OracleDate: {c:?}"), String::new()));
                }
            };
            for u in 0..12 {
                agree(acc, &|| format!("trunc_{}()", UNIT_NAMES[u]), guard(|| trunc_date(u, d).map(mid).map_err(|_| ())), guard(|| trunc_ts(u, ts).map(|x| x.usecs()).map_err(|_| ())), Some(guard(|| trunc_od(u, od).map(|x| x.usecs()).map_err(|_| ()))));
                agree(acc, &|| format!("round_{}()", UNIT_NAMES[u]), guard(|| round_date(u, d).map(mid).map_err(|_| ())), guard(|| round_ts(u, ts).map(|x| x.usecs()).map_err(|_| ())), Some(guard(|| round_od(u, od).map(|x| x.usecs()).map_err(|_| ()))));
            }
            agree(acc, &|| "last_day_of_month()".into(), guard(|| Ok(mid(d.last_day_of_month()))), guard(|| Ok(ts.last_day_of_month().usecs())), Some(guard(|| Ok(od.last_day_of_month().usecs()))));
            for &k in ks.iter() {
                let iv = IntervalYM::try_from_months(k).unwrap();
                agree(acc, &|| format!("add_interval_ym({k})"), guard(|| d.add_interval_ym(iv).map(|x| x.usecs()).map_err(|_| ())), guard(|| ts.add_interval_ym(iv).map(|x| x.usecs()).map_err(|_| ())), Some(guard(|| od.add_interval_ym(iv).map(|x| x.usecs()).map_err(|_| ()))));
                agree(acc, &|| format!("sub_interval_ym({k})"), guard(|| d.sub_interval_ym(iv).map(|x| x.usecs()).map_err(|_| ())), guard(|| ts.sub_interval_ym(iv).map(|x| x.usecs()).map_err(|_| ())), Some(guard(|| od.sub_interval_ym(iv).map(|x| x.usecs()).map_err(|_| ()))));
            }
            for &i in ivs.iter() {
                let iv = IntervalDT::try_from_usecs(i).unwrap();
                let fl = |x: Timestamp| x.usecs().div_euclid(US_SEC) * US_SEC;
                // Date vs Timestamp exactly; OracleDate = the same floored to the second
                agree(acc, &|| format!("add_interval_dt({i})"), guard(|| d.add_interval_dt(iv).map(|x| x.usecs()).map_err(|_| ())), guard(|| ts.add_interval_dt(iv).map(|x| x.usecs()).map_err(|_| ())), None);
                agree(acc, &|| format!("sub_interval_dt({i})"), guard(|| d.sub_interval_dt(iv).map(|x| x.usecs()).map_err(|_| ())), guard(|| ts.sub_interval_dt(iv).map(|x| x.usecs()).map_err(|_| ())), None);
                agree(acc, &|| format!("oracle add_interval_dt({i})"), guard(|| ts.add_interval_dt(iv).map(fl).map_err(|_| ())), guard(|| od.add_interval_dt(iv).map(|x| x.usecs()).map_err(|_| ())), None);
                agree(acc, &|| format!("oracle sub_interval_dt({i})"), guard(|| ts.sub_interval_dt(iv).map(fl).map_err(|_| ())), guard(|| od.sub_interval_dt(iv).map(|x| x.usecs()).map_err(|_| ())), None);
            }
            for &t in times.iter() {
                let tm = Time::try_from_usecs(t).unwrap();
                agree(acc, &|| format!("add_time({t})"), guard(|| Ok(d.add_time(tm).usecs())), guard(|| ts.add_time(tm).map(|x| x.usecs()).map_err(|_| ())), Some(guard(|| od.add_time(tm).map(|x| x.usecs()).map_err(|_| ()))));
                agree(acc, &|| format!("sub_time({t})"), guard(|| d.sub_time(tm).map(|x| x.usecs()).map_err(|_| ())), guard(|| ts.sub_time(tm).map(|x| x.usecs()).map_err(|_| ())), Some(guard(|| od.sub_time(tm).map(|x| x.usecs()).map_err(|_| ()))));
            }
            for &o in &others_d {
                let d2 = Date::try_from_days(o).unwrap();
                let ts2 = Timestamp::new(d2, Time::try_from_usecs(12 * US_HOUR + 1_000_000).unwrap());
                let od2 = OracleDate::from(ts2);
                agree(acc, &|| format!("sub_date(day {o})"), guard(|| Ok(d.sub_date(d2) as i64 * US_DAY)), guard(|| Ok(ts.sub_date(d2).usecs())), Some(guard(|| Ok(ts.sub_timestamp(Timestamp::from(d2)).usecs()))));
                agree(acc, &|| format!("sub_timestamp({})", ts2.usecs()), guard(|| Ok(d.sub_timestamp(ts2).usecs())), guard(|| Ok(ts.sub_timestamp(ts2).usecs())), Some(guard(|| Ok(od.sub_timestamp(ts2).usecs()))));
                agree(acc, &|| format!("oracle_sub_date({})", od2.usecs()), guard(|| Ok(ts.oracle_sub_date(od2).usecs())), guard(|| Ok(ts.sub_timestamp(Timestamp::from(od2)).usecs())), None);
                // distance in days as f64 corresponds to the exact microsecond difference
                acc.t(1);
                let days = guard(|| od.sub_date(od2));
                let us = od.usecs() - od2.usecs();
                if days.map(|x| (x * 86_400.0).round() as i64) != Ok(us / US_SEC) {
                    acc.fail("C17:midnight:oracle_sub_date_days:types-disagree", idx, || (format!("OracleDate day {n} minus OracleDate({})", od2.usecs()), format!("{} seconds", us / US_SEC), format!("{days:?} days"), String::new()));
                }
            }
        }
    });
    ctx.require(&r, &["changed_value", "same_value", "all_fail"]);

    // Timestamp vs OracleDate at whole-second critical times
    let crit_s = crit_seconds();
    let cs = &crit_s;
    let whole_ivs: Vec<i64> = ivs.iter().map(|i| i / US_SEC * US_SEC).collect();
    let wi = &whole_ivs;
    let r = ctx.sweep("timestamp_vs_oracle_whole_seconds", "all dates x whole-second critical times x {24 trunc/round, last_day_of_month, +/-IntervalYM, +/-whole-second IntervalDT} through Timestamp and OracleDate", total, 256, |range, acc| {
        for idx in range {
            let n = cal.min_day + idx as i32;
            let d = Date::try_from_days(n).unwrap();
            for &t in cs.iter() {
                let ts = Timestamp::new(d, Time::try_from_usecs(t).unwrap());
                let od = OracleDate::from(ts);
                acc.states += 1;
                let mut agree = |acc: &mut explorer::Acc, code: usize, a: R, b: R| {
                    acc.t(1);
                    acc.traces += 1;
                    match &a { Ok(Ok(v)) => { if *v != ts.usecs() { acc.nontrivial += 1; acc.cls("changed_value") } else { acc.cls("same_value") } } Ok(Err(())) => { acc.cls("all_fail"); acc.nontrivial += 1; } Err(()) => acc.cls("panic") }
                    if a != b || a.is_err() {
                        let opname = if code < 12 { format!("trunc_{}", UNIT_NAMES[code]) } else if code < 24 { format!("round_{}", UNIT_NAMES[code - 12]) } else { ["last_day_of_month", "add_interval_ym", "sub_interval_ym", "add_interval_dt", "sub_interval_dt"][code - 24].to_string() };
                        acc.fail(&format!("C17:whole-second:{opname}:types-disagree"), idx, || (format!("{opname} on day {n} time {} through Timestamp / OracleDate", fmt_time(t)), format!("Timestamp: {a:?}"), format!("OracleDate: {b:?}"), String::new()));
                    }
                };
                for u in 0..12 {
                    agree(acc, u, guard(|| trunc_ts(u, ts).map(|x| x.usecs()).map_err(|_| ())), guard(|| trunc_od(u, od).map(|x| x.usecs()).map_err(|_| ())));
                    agree(acc, 12 + u, guard(|| round_ts(u, ts).map(|x| x.usecs()).map_err(|_| ())), guard(|| round_od(u, od).map(|x| x.usecs()).map_err(|_| ())));
                }
                agree(acc, 24, guard(|| Ok(ts.last_day_of_month().usecs())), guard(|| Ok(od.last_day_of_month().usecs())));
                for &k in [1i32, -1, 12, -13, 2_136_000_000].iter() {
                    let iv = IntervalYM::try_from_months(k).unwrap();
                    agree(acc, 25, guard(|| ts.add_interval_ym(iv).map(|x| x.usecs()).map_err(|_| ())), guard(|| od.add_interval_ym(iv).map(|x| x.usecs()).map_err(|_| ())));
                    agree(acc, 26, guard(|| ts.sub_interval_ym(iv).map(|x| x.usecs()).map_err(|_| ())), guard(|| od.sub_interval_ym(iv).map(|x| x.usecs()).map_err(|_| ())));
                }
                for &i in wi.iter().step_by(5) {
                    let iv = IntervalDT::try_from_usecs(i).unwrap();
                    agree(acc, 27, guard(|| ts.add_interval_dt(iv).map(|x| x.usecs()).map_err(|_| ())), guard(|| od.add_interval_dt(iv).map(|x| x.usecs()).map_err(|_| ())));
                    agree(acc, 28, guard(|| ts.sub_interval_dt(iv).map(|x| x.usecs()).map_err(|_| ())), guard(|| od.sub_interval_dt(iv).map(|x| x.usecs()).map_err(|_| ())));
                }
            }
        }
    });
    ctx.require(&r, &["changed_value", "same_value", "all_fail"]);

    // fractional days: the Oracle-style date is the timestamp result rounded to the nearest second
    let offs = crate::c08::day_fraction_offsets(seed);
    let bases = pool_od(w, seed);
    let (offs_r, bases_r) = (&offs, &bases);
    let no = offs.len() as u64;
    let r = ctx.sweep_each("oracle_add_days_vs_timestamp_add_days", "oracle-date pool x fractional / integral / large day offsets: OracleDate::add_days / sub_days must be Timestamp::add_days / sub_days rounded to the nearest second (where that is not an exact tie)", bases.len() as u64 * no, 256, |idx, acc| {
        let f = offs_r[(idx % no) as usize];
        let o = bases_r[(idx / no) as usize];
        acc.states += 1;
        acc.t(2);
        acc.traces += 1;
        let od = OracleDate::try_from_usecs(o).unwrap();
        let ts = Timestamp::try_from_usecs(o).unwrap();
        for sub in [false, true] {
            let a = guard(|| if sub { od.sub_days(f) } else { od.add_days(f) }.map(|x| x.usecs()).map_err(|_| ()));
            let b = guard(|| if sub { ts.sub_days(f) } else { ts.add_days(f) }.map(|x| x.usecs()).map_err(|_| ()));
            let (a, b) = match (a, b) { (Ok(a), Ok(b)) => (a, b), _ => { acc.cls("panic"); continue; } };
            match (a, b) {
                (Ok(x), Ok(t)) => {
                    let rem = t.rem_euclid(US_SEC);
                    let lo = t - rem;
                    let ok = x % US_SEC == 0 && if rem * 2 == US_SEC { x == lo || x == lo + US_SEC } else if rem * 2 < US_SEC { x == lo } else { x == lo + US_SEC };
                    acc.cls("both_ok");
                    if rem != 0 { acc.nontrivial += 1; }
                    if !ok {
                        acc.fail("C17:add_days:oracle-date-is-not-the-timestamp-result-rounded-to-the-second", idx, || (format!("OracleDate({o}) vs Timestamp({o}) {} {f:?} days", if sub { "-" } else { "+" }), format!("timestamp result {t} rounded to the nearest second"), format!("{x}"), String::new()));
                    }
                }
                (Err(()), Err(())) => acc.cls("all_fail"),
                // the timestamp result exists but rounds past the last second, or does not exist: the oracle date must fail
                (Err(()), Ok(t)) => { if t.rem_euclid(US_SEC) * 2 >= US_SEC && t > refmodel::ranges::OD_MAX as i64 { acc.cls("rounds_past_range") } else {
                    acc.fail("C17:add_days:oracle-date-fails-where-timestamp-result-exists", idx, || (format!("OracleDate({o}) {} {f:?} days", if sub { "-" } else { "+" }), format!("Ok (timestamp result {t})"), "Err".into(), String::new())) } }
                // the exact sum lies less than half a second before the first instant: it is not a timestamp, but its
                // nearest second is the first Oracle-style date; either answer corresponds (C16 decides the rounding)
                (Ok(x), Err(())) if x as i128 == refmodel::ranges::OD_MIN => acc.cls("edge_rounds_into_range"),
                (Ok(x), Err(())) => acc.fail("C17:add_days:oracle-date-succeeds-where-timestamp-fails", idx, || (format!("OracleDate({o}) {} {f:?} days", if sub { "-" } else { "+" }), "Err".into(), format!("Ok({x})"), String::new())),
            }
        }
    });
    ctx.require(&r, &["both_ok", "all_fail"]);

    // mixed comparisons
    let pool = pool_ts(w, seed);
    let pool = &pool;
    let r = ctx.sweep("mixed_comparisons", "all dates x instants {d-1µs, d, d+1µs, d+1s, d+1day-1µs, pool}: ==, !=, <, <=, >, >=, partial_cmp in both argument orders for Date/Timestamp, Date/OracleDate, OracleDate/Timestamp", total, 1024, |range, acc| {
        for idx in range {
            let n = cal.min_day + idx as i32;
            let d = Date::try_from_days(n).unwrap();
            let m = n as i64 * US_DAY;
            let tmin = cal.min_day as i64 * US_DAY;
            let tmax = (cal.max_day as i64 + 1) * US_DAY - 1;
            let mut insts: Vec<i64> = vec![m - 1, m, m + 1, m + US_SEC, m - US_SEC, m + US_DAY - 1, m + (1i64 << 32), m + (20i64 << 32), m - (1i64 << 32), m + (1i64 << 31), m + (1i64 << 33) + 1];
            insts.extend(pool.iter().step_by(7));
            acc.states += 1;
            for &u in &insts {
                if u < tmin || u > tmax { continue; }
                let ts = Timestamp::try_from_usecs(u).unwrap();
                let exp = m.cmp(&u);
                acc.t(2);
                acc.traces += 1;
                if exp != Ordering::Equal { acc.nontrivial += 1; acc.cls("unequal") } else { acc.cls("equal") }
                let ok = guard(|| cmp_all!(d, ts, exp) && cmp_all!(ts, d, exp.reverse()));
                if ok != Ok(true) {
                    acc.fail("C17:compare:Date-vs-Timestamp:not-comparison-of-converted-values", idx, || (format!("Date(day {n}) vs Timestamp({u})"), format!("{exp:?}"), format!("{ok:?} partial_cmp={:?}/{:?}", d.partial_cmp(&ts), ts.partial_cmp(&d)), String::new()));
                }
                // oracle date at the floor second of the instant
                let od = OracleDate::from(ts);
                let ou = od.usecs();
                let e2 = m.cmp(&ou);
                let ok = guard(|| cmp_all!(d, od, e2) && cmp_all!(od, d, e2.reverse()));
                if ok != Ok(true) {
                    acc.fail("C17:compare:Date-vs-OracleDate:not-comparison-of-converted-values", idx, || (format!("Date(day {n}) vs OracleDate({ou})"), format!("{e2:?}"), format!("{ok:?}"), String::new()));
                }
                let e3 = ou.cmp(&u);
                let ok = guard(|| cmp_all!(od, ts, e3) && cmp_all!(ts, od, e3.reverse()));
                if ok != Ok(true) {
                    acc.fail("C17:compare:OracleDate-vs-Timestamp:not-comparison-of-converted-values", idx, || (format!("OracleDate({ou}) vs Timestamp({u})"), format!("{e3:?}"), format!("{ok:?}"), String::new()));
                }
            }
        }
    });
    ctx.require(&r, &["unequal", "equal"]);
    // hidden state: every ordered pair of operation calls on a fresh thread against the lone call (no model involved)
    let hist_calls = crate::histpairs::calls_ops(true, &|op| matches!(op.sig().0, 0 | 2 | 5));
    crate::histpairs::pairwise(ctx, "C17", "date_bearing_operations", hist_calls);
    let hist_calls_full = crate::histpairs::calls_ops(false, &|op| matches!(op.sig().0, 0 | 2 | 5));
    crate::histpairs::pairwise_same_thread(ctx, "C17", "date_bearing_operations", hist_calls_full);
}
