//! C07 — a timestamp is exactly its (date, time-of-day) pair, before and after 1970; times of
//! day correspond one-to-one to (h, mi, s, µs) tuples; Eq / Ord / Hash are chronological.

use crate::common::*;
use explorer::serde_json::json;
use explorer::Ctx;
use sqldatetime::{Date, DateTime, Time, Timestamp};
use std::collections::hash_map::DefaultHasher;
use std::hash::{Hash, Hasher};

fn h<T: Hash>(v: &T) -> u64 {
    let mut s = DefaultHasher::new();
    v.hash(&mut s);
    s.finish()
}

/// check one time-of-day value against integer arithmetic; returns false on mismatch
#[inline]
fn time_fields_ok(t: Time, us: i64) -> bool {
    let hh = (us / US_HOUR) as u32;
    let mi = (us / US_MIN % 60) as u32;
    let ss = (us / US_SEC % 60) as u32;
    let f = (us % US_SEC) as u32;
    t.usecs() == us
        && t.extract() == (hh, mi, ss, f)
        && t.hour() == Some(hh as i32)
        && t.minute() == Some(mi as i32)
        && t.second().map(|x| (x * 1e6).round() as i64) == Some(ss as i64 * US_SEC + f as i64)
        && t.year().is_none()
        && t.month().is_none()
        && t.day().is_none()
        && DateTime::date(&t).is_none()
}

pub fn run(ctx: &mut Ctx) {
    let w = world();
    let cal = &w.cal;
    let crit = crit_times();
    let seed = ctx.seed;
    ctx.rule("a case is one (date, time-of-day) pair or one time-of-day tuple at a distinct sweep index; non-trivial = the instant lies before 1970 with a non-zero time of day (negative-remainder branch), or the tuple is rejected");
    ctx.assume("reference: i128 floor arithmetic d*86,400,000,000 + t and the day-counting walker for the calendar fields");
    ctx.bound("critical_times", json!(crit.iter().map(|t| fmt_time(*t)).collect::<Vec<_>>()));

    // a. all dates x critical times (+ one seed-derived time per date)
    let nt = crit.len() as u64 + 1;
    let total = cal.total_days() as u64;
    let crit_r = &crit;
    let r = ctx.sweep("dates_x_crit_times", "all dates x critical times of day (+1 seed-derived time per date)", total, 2048, |range, acc| {
        let mut c = cal.at(cal.min_day + range.start as i32);
        let mut prev_last: Option<Timestamp> = None;
        for idx in range {
            let n = c.n;
            let date = match guard(|| Date::try_from_days(n)) {
                Ok(Ok(d)) => d,
                _ => {
                    acc.fail("C07:try_from_days:rejects-in-range", idx, || (format!("Date::try_from_days({n})"), "Ok".into(), "Err/panic".into(), String::new()));
                    c.next();
                    continue;
                }
            };
            let mut times: Vec<i64> = crit_r.clone();
            times.push((splitmix(seed ^ (n as u64).wrapping_mul(0x9E37)) % US_DAY as u64) as i64);
            times.sort();
            times.dedup();
            let mut prev: Option<Timestamp> = prev_last;
            for &t in &times {
                acc.states += 1;
                acc.t(1);
                acc.traces += 1;
                let expect = n as i128 * US_DAY as i128 + t as i128;
                let res = guard(|| {
                    let time = Time::try_from_usecs(t).ok()?;
                    let ts = Timestamp::new(date, time);
                    let hh = (t / US_HOUR) as u32;
                    let mi = (t / US_MIN % 60) as u32;
                    let ss = (t / US_SEC % 60) as u32;
                    let f = (t % US_SEC) as u32;
                    let mut ok = ts.usecs() as i128 == expect;
                    ok &= ts.extract() == (date, time);
                    ok &= DateTime::date(&ts) == Some(date);
                    ok &= Time::from(ts) == time;
                    ok &= ts.year() == Some(c.y) && ts.month() == Some(c.m as i32) && ts.day() == Some(c.d as i32);
                    ok &= ts.hour() == Some(hh as i32) && ts.minute() == Some(mi as i32);
                    ok &= ts.second().map(|x| (x * 1e6).round() as i64) == Some(ss as i64 * US_SEC + f as i64);
                    ok &= Timestamp::try_from_usecs(ts.usecs()) == Ok(ts);
                    ok &= date.and_time(time) == ts && date.add_time(time) == ts;
                    ok &= date.and_hms(hh, mi, ss, f) == Ok(ts);
                    ok &= h(&ts) == h(&Timestamp::try_from_usecs(expect as i64).unwrap()) && h(&time) == h(&Time::try_from_hms(hh, mi, ss, f).unwrap());
                    if t == 0 {
                        ok &= Timestamp::from(date) == ts;
                    }
                    Some((ok, ts))
                });
                match res {
                    Ok(Some((true, ts))) => {
                        if n < 0 && t != 0 {
                            acc.nontrivial += 1;
                            acc.cls("pre_epoch_nonzero_time");
                        } else if n < 0 {
                            acc.cls("pre_epoch_midnight");
                        } else {
                            acc.cls("post_epoch");
                        }
                        if let Some(p) = prev {
                            let ord_ok = p < ts && ts > p && p != ts && p.cmp(&ts) == std::cmp::Ordering::Less && (p == ts) == (p.usecs() == ts.usecs());
                            if !ord_ok {
                                acc.fail("C07:ordering:not-chronological", idx, || (format!("Timestamp({}) vs Timestamp({})", p.usecs(), ts.usecs()), "earlier < later".into(), format!("{:?}", p.cmp(&ts)), String::new()));
                            }
                        }
                        prev = Some(ts);
                        if n == -1 && t == 1 {
                            acc.want_sample = true;
                            acc.sample(|| json!({"date_day_number": n, "time_usecs": t, "timestamp_usecs": ts.usecs(), "expected": expect.to_string()}));
                            acc.want_sample = false;
                        }
                    }
                    other => {
                        acc.fail("C07:timestamp:pair-split-mismatch", idx, || {
                            let detail = guard(|| {
                                let time = Time::try_from_usecs(t).unwrap();
                                let ts = Timestamp::new(date, time);
                                format!("usecs={} extract=({:?}) ymd=({:?},{:?},{:?}) hms=({:?},{:?},{:?})", ts.usecs(), ts.extract(), ts.year(), ts.month(), ts.day(), ts.hour(), ts.minute(), ts.second())
                            });
                            (format!("Timestamp::new(Date {:04}-{:02}-{:02} [day {n}], Time {} [{t} µs]) -> extract / accessors / usecs", c.y, c.m, c.d, fmt_time(t)),
                             format!("usecs={expect}, extract=(day {n}, {t} µs), fields {:04}-{:02}-{:02} {}", c.y, c.m, c.d, fmt_time(t)),
                             format!("{other:?} {detail:?}"),
                             format!("let d = Date::try_from_days({n}).unwrap(); let t = Time::try_from_usecs({t}).unwrap(); let ts = Timestamp::new(d, t); assert_eq!(ts.extract(), (d, t)); assert_eq!(ts.usecs(), {expect});"))
                        });
                    }
                }
            }
            prev_last = prev;
            c.next();
        }
    });
    let _ = nt;
    ctx.require(&r, &["pre_epoch_nonzero_time", "pre_epoch_midnight", "post_epoch"]);

    // b/c/d. time-of-day bijection
    let micro_at: [i64; 5] = [0, 1, 499_999, 500_000, 999_999];
    let r = ctx.sweep("seconds_x_boundary_usecs", "all 86,400 seconds x {0,1,499999,500000,999999} µs", 86_400 * 5, 4096, |range, acc| {
        let mut prev: Option<Time> = None;
        for idx in range {
            let s = (idx / 5) as i64;
            let us = s * US_SEC + micro_at[(idx % 5) as usize];
            acc.states += 1;
            acc.t(3);
            acc.traces += 1;
            let (hh, mi, ss, f) = ((us / US_HOUR) as u32, (us / US_MIN % 60) as u32, (us / US_SEC % 60) as u32, (us % US_SEC) as u32);
            let res = guard(|| {
                let a = Time::try_from_hms(hh, mi, ss, f).ok()?;
                let b = Time::try_from_usecs(us).ok()?;
                // unchecked constructors with their precondition satisfied
                let (c, d, e) = unsafe { (Time::from_hms_unchecked(hh, mi, ss, f), Time::from_usecs_unchecked(us), Timestamp::from_usecs_unchecked(us - US_DAY)) };
                Some((a == b && a == c && a == d && e.usecs() == us - US_DAY && e.extract().1 == a && time_fields_ok(a, us) && Time::is_valid(hh, mi, ss, f) && h(&a) == h(&b), a))
            });
            match res {
                Ok(Some((true, t))) => {
                    acc.cls("tuple_roundtrip");
                    acc.nontrivial += 1;
                    if let Some(p) = prev {
                        if !(p < t && p != t && t > p) {
                            acc.fail("C07:time-ordering:not-numeric", idx, || (format!("Time({}) vs Time({})", p.usecs(), t.usecs()), "increasing".into(), format!("{:?}", p.cmp(&t)), String::new()));
                        }
                    }
                    prev = Some(t);
                }
                other => acc.fail("C07:time:tuple-bijection-mismatch", idx, || {
                    (format!("Time::try_from_hms({hh}, {mi}, {ss}, {f}) / try_from_usecs({us})"), format!("same value, extract = ({hh}, {mi}, {ss}, {f}), usecs = {us}"), format!("{other:?}"),
                     format!("let t = Time::try_from_hms({hh}, {mi}, {ss}, {f}).unwrap(); assert_eq!(t.usecs(), {us}); assert_eq!(t.extract(), ({hh}, {mi}, {ss}, {f}));"))
                }),
            }
        }
    });
    ctx.require(&r, &["tuple_roundtrip"]);

    let secs_at: [i64; 5] = [0, 1, 43_199, 43_200, 86_399];
    ctx.sweep("usecs_at_selected_seconds", "all 1,000,000 µs at seconds {0,1,43199,43200,86399}", 5_000_000, 1 << 16, |range, acc| {
        for idx in range {
            let us = secs_at[(idx / 1_000_000) as usize] * US_SEC + (idx % 1_000_000) as i64;
            acc.states += 1;
            acc.t(2);
            let (hh, mi, ss, f) = ((us / US_HOUR) as u32, (us / US_MIN % 60) as u32, (us / US_SEC % 60) as u32, (us % US_SEC) as u32);
            let ok = guard(|| match (Time::try_from_usecs(us), Time::try_from_hms(hh, mi, ss, f)) {
                (Ok(a), Ok(b)) => a == b && time_fields_ok(a, us),
                _ => false,
            });
            if ok == Ok(true) {
                acc.cls("tuple_roundtrip");
                acc.nontrivial += 1;
            } else {
                acc.fail("C07:time:tuple-bijection-mismatch", idx, || {
                    (format!("Time::try_from_usecs({us}) vs try_from_hms({hh}, {mi}, {ss}, {f})"), "same value with those fields".into(), format!("{ok:?}"),
                     format!("let t = Time::try_from_usecs({us}).unwrap(); assert_eq!(t.extract(), ({hh}, {mi}, {ss}, {f}));"))
                });
            }
        }
    });

    if ctx.thorough() {
        ctx.bound("time_of_day", json!("all 86,400,000,000 microseconds of the day"));
        ctx.sweep("all_usecs_of_day", "every microsecond of the day through try_from_usecs -> extract -> try_from_hms", US_DAY as u64, 1 << 24, |range, acc| {
            let n = range.end - range.start;
            let mut us = range.start as i64;
            let (mut hh, mut mi, mut ss, mut f) = ((us / US_HOUR) as u32, (us / US_MIN % 60) as u32, (us / US_SEC % 60) as u32, (us % US_SEC) as u32);
            for idx in range {
                let ok = match Time::try_from_usecs(us) {
                    Ok(t) => t.extract() == (hh, mi, ss, f) && t.usecs() == us && Time::try_from_hms(hh, mi, ss, f) == Ok(t),
                    Err(_) => false,
                };
                if !ok {
                    acc.fail("C07:time:tuple-bijection-mismatch", idx, || {
                        (format!("Time::try_from_usecs({us})"), format!("fields ({hh}, {mi}, {ss}, {f})"), format!("{:?}", Time::try_from_usecs(us).map(|t| t.extract())),
                         format!("assert_eq!(Time::try_from_usecs({us}).unwrap().extract(), ({hh}, {mi}, {ss}, {f}));"))
                    });
                }
                // odometer, independent of division
                us += 1;
                f += 1;
                if f == 1_000_000 { f = 0; ss += 1; if ss == 60 { ss = 0; mi += 1; if mi == 60 { mi = 0; hh += 1; } } }
            }
            acc.states += n;
            acc.t(n * 2);
            acc.nontrivial += n;
            acc.cls_n("tuple_roundtrip", n);
        });
    }

    // e. validity grid
    let mut hs: Vec<u32> = (0..=25).collect();
    hs.extend_from_slice(&[255, 256, 280, 1 << 31, u32::MAX - 1, u32::MAX]);
    let mut ms: Vec<u32> = (0..=61).collect();
    ms.extend_from_slice(&[255, 256, 316, 1 << 31, u32::MAX]);
    let usv: Vec<u32> = vec![0, 1, 999_999, 1_000_000, 1_000_001, 1 << 31, u32::MAX];
    let (hs, ms, usv) = (&hs, &ms, &usv);
    let tot = (hs.len() * ms.len() * ms.len() * usv.len()) as u64;
    ctx.bound("validity_grid", json!({"hours": "0..=25 + {255,256,280,2^31,MAX-1,MAX}", "minutes/seconds": "0..=61 + {255,256,316,2^31,MAX}", "micros": format!("{usv:?}")}));
    let epoch = Date::try_from_days(0).unwrap();
    let r = ctx.sweep_each("validity_grid", "(hour, minute, second, microsecond) grid incl. u32 extremes", tot, 1 << 14, |idx, acc| {
        let mut k = idx as usize;
        let f = usv[k % usv.len()]; k /= usv.len();
        let ss = ms[k % ms.len()]; k /= ms.len();
        let mi = ms[k % ms.len()]; k /= ms.len();
        let hh = hs[k];
        let valid = hh < 24 && mi < 60 && ss < 60 && f < 1_000_000;
        acc.states += 1;
        acc.t(3);
        let got = guard(|| (Time::try_from_hms(hh, mi, ss, f).map(|t| t.usecs()), Time::is_valid(hh, mi, ss, f), epoch.and_hms(hh, mi, ss, f).map(|t| t.usecs())));
        let expect_us = hh as i128 * US_HOUR as i128 + mi as i128 * US_MIN as i128 + ss as i128 * US_SEC as i128 + f as i128;
        let ok = match &got {
            Ok((Ok(a), true, Ok(b))) => valid && *a as i128 == expect_us && *b as i128 == expect_us,
            Ok((Err(_), false, Err(_))) => !valid,
            _ => false,
        };
        if ok {
            if valid { acc.cls("accepted") } else { acc.cls("rejected"); acc.nontrivial += 1; }
        } else {
            acc.fail("C07:try_from_hms:acceptance-not-exact", idx, || {
                (format!("Time::try_from_hms / is_valid / Date::and_hms ({hh}, {mi}, {ss}, {f})"), if valid { format!("accepted with {expect_us} µs") } else { "rejected by all three".into() }, format!("{got:?}"),
                 format!("let _ = Time::try_from_hms({hh}, {mi}, {ss}, {f});"))
            });
        }
    });
    ctx.require(&r, &["accepted", "rejected"]);

    let raw: Vec<i64> = vec![i64::MIN, i64::MIN + 1, -US_DAY, -1_000_000, -1, 0, 1, US_DAY - 1, US_DAY, US_DAY + 1, 2 * US_DAY, i64::MAX - 1, i64::MAX, (1 << 32) - 1, 1 << 32, 1 << 36, (1 << 36) + 5];
    let raw = &raw;
    let r = ctx.sweep_each("raw_usecs", "raw i64 microsecond counts through Time::try_from_usecs", raw.len() as u64, 64, |idx, acc| {
        let u = raw[idx as usize];
        let valid = (0..US_DAY).contains(&u);
        acc.states += 1;
        acc.t(1);
        match guard(|| Time::try_from_usecs(u)) {
            Ok(Ok(t)) if valid && t.usecs() == u => acc.cls("accepted"),
            Ok(Err(_)) if !valid => { acc.cls("rejected"); acc.nontrivial += 1 }
            other => acc.fail("C07:try_from_usecs:acceptance-not-exact", idx, || (format!("Time::try_from_usecs({u})"), format!("valid={valid}"), format!("{other:?}"), format!("let _ = Time::try_from_usecs({u});"))),
        }
    });
    ctx.require(&r, &["accepted", "rejected"]);

    // e'. Date::and_hms on EVERY date: out-of-domain tuples rejected, in-domain ones equal the sum
    ctx.sweep("and_hms_on_all_dates", "all dates x {23:59:60, 24:00:00, 23:60:00, 23:59:59 + 1,000,000 µs (must fail), 23:59:59.999999, 00:00:00 (must equal date + time)}", total, 4096, |range, acc| {
        for idx in range {
            let n = cal.min_day + idx as i32;
            let d = Date::try_from_days(n).unwrap();
            acc.states += 1;
            acc.t(6);
            let got = guard(|| (d.and_hms(23, 59, 60, 0).is_err(), d.and_hms(24, 0, 0, 0).is_err(), d.and_hms(23, 60, 0, 0).is_err(), d.and_hms(23, 59, 59, 1_000_000).is_err(),
                d.and_hms(23, 59, 59, 999_999).map(|t| t.usecs()).ok(), d.and_hms(0, 0, 0, 0).map(|t| t.usecs()).ok()));
            if got != Ok((true, true, true, true, Some(n as i64 * US_DAY + US_DAY - 1), Some(n as i64 * US_DAY))) {
                acc.fail("C07:Date:and_hms:acceptance-not-exact", idx, || (format!("Date(day {n}).and_hms with 23:59:60 / 24:00:00 / 23:60:00 / usec 1000000 / 23:59:59.999999 / 00:00:00"), "four errors, then date + time".into(), format!("{got:?}"), String::new()));
            } else { acc.cls("consistent"); }
        }
    });

    if ctx.thorough() {
        // every microsecond of the last day before the epoch as a timestamp (pre-1970 floor logic)
        ctx.sweep("all_usecs_of_1969_12_31_as_timestamps", "every microsecond of 1969-12-31 as a Timestamp: date(), year/month/day, extract, Time::from", US_DAY as u64, 1 << 24, |range, acc| {
            let n = range.end - range.start;
            let dm1 = Date::try_from_days(-1).unwrap();
            for idx in range {
                let t = idx as i64;
                let ts = Timestamp::try_from_usecs(-US_DAY + t).unwrap();
                let ok = DateTime::date(&ts) == Some(dm1) && ts.day() == Some(31) && ts.month() == Some(12) && ts.year() == Some(1969) && ts.extract().0 == dm1 && ts.extract().1.usecs() == t && Time::from(ts).usecs() == t;
                if !ok {
                    acc.fail("C07:timestamp:pair-split-mismatch", idx, || (format!("Timestamp({}) = 1969-12-31 + {t} µs", -US_DAY + t), "date 1969-12-31, that time of day".into(), format!("date()={:?} ymd=({:?},{:?},{:?}) extract={:?}", DateTime::date(&ts), ts.year(), ts.month(), ts.day(), ts.extract()), String::new()));
                }
            }
            acc.states += n;
            acc.t(n);
            acc.nontrivial += n;
            acc.cls_n("pre_epoch_nonzero_time", n);
        });
    }

    // f. dates: Eq / Ord / Hash along the enumeration
    ctx.sweep("date_eq_ord_hash", "all dates: built three ways hash equal; consecutive dates ordered", total, 8192, |range, acc| {
        let mut c = cal.at(cal.min_day + range.start as i32);
        for idx in range {
            acc.states += 1;
            acc.t(1);
            let ok = guard(|| {
                let a = Date::try_from_days(c.n).ok()?;
                let b = Date::try_from_ymd(c.y, c.m, c.d).ok()?;
                let ta = Timestamp::from(a);
                Some(a == b && h(&a) == h(&b) && a.cmp(&b) == std::cmp::Ordering::Equal && ta.usecs() as i128 == c.n as i128 * US_DAY as i128 && h(&ta) == h(&Timestamp::new(b, Time::ZERO)))
            });
            if ok != Ok(Some(true)) {
                acc.fail("C07:date:eq-hash-inconsistent", idx, || (format!("Date day {} built from days and from ymd", c.n), "equal, same hash".into(), format!("{ok:?}"), String::new()));
            } else {
                acc.cls("consistent");
            }
            c.next();
        }
    });
    // hidden state: every ordered pair of operation calls on a fresh thread against the lone call (no model involved)
    let hist_calls = crate::histpairs::calls_ops(true, &|op| { use crate::optable::Op::*; matches!(op, DAndTime | DToTs | SDate | STime | SToOd | ODate | OTime | OToTs | DRebuild | TRebuild | SRebuild | ORebuild | TToDt | IToTime) });
    crate::histpairs::pairwise(ctx, "C07", "split_combine_rebuild", hist_calls);
    let hist_calls_full = crate::histpairs::calls_ops(false, &|op| { use crate::optable::Op::*; matches!(op, DAndTime | DToTs | SDate | STime | SToOd | ODate | OTime | OToTs | DRebuild | TRebuild | SRebuild | ORebuild | TToDt | IToTime) });
    crate::histpairs::pairwise_same_thread(ctx, "C07", "split_combine_rebuild", hist_calls_full);
    crate::histpairs::pairwise(ctx, "C07", "field_accessors_and_constructors", crate::histpairs::calls_accessors());
}
