//! Counters, outcome-class histograms, violations, evidence JSON, known-finding matching,
//! replay artefacts and exit codes.  Knows nothing about dates.

use serde_json::{json, Map, Value};
use std::collections::BTreeMap;
use std::path::PathBuf;
use std::time::Instant;

#[derive(Clone, Copy, PartialEq, Eq, Debug)]
pub enum Tier {
    Quick,
    Thorough,
}

impl Tier {
    pub fn name(self) -> &'static str {
        match self {
            Tier::Quick => "quick",
            Tier::Thorough => "thorough",
        }
    }
    pub fn thorough(self) -> bool {
        self == Tier::Thorough
    }
}

/// One counterexample.  `sig` is the *signature* (operation / input class / observed-result
/// class); the first violation per signature (smallest `ord`) is kept and reported.
#[derive(Clone, Debug)]
pub struct Violation {
    pub sig: String,
    pub sub: String,
    pub ord: u64,
    /// for BFS sub-checks: the encoded state the failing transition starts from
    pub state: Option<String>,
    pub what: String,
    pub expected: String,
    pub observed: String,
    pub snippet: String,
}

/// Per-worker accumulator; merged after a sweep.
pub struct Acc {
    pub states: u64,
    pub transitions: u64,
    pub traces: u64,
    pub evals: u64,
    pub nontrivial: u64,
    classes: Vec<(&'static str, u64)>,
    viols: BTreeMap<String, Violation>,
    pub nviol: u64,
    samples: Vec<Value>,
    pub want_sample: bool,
    pub(crate) sub: String,
}

impl Acc {
    pub fn new(sub: &str) -> Acc {
        Acc {
            states: 0,
            transitions: 0,
            traces: 0,
            evals: 0,
            nontrivial: 0,
            classes: Vec::new(),
            viols: BTreeMap::new(),
            nviol: 0,
            samples: Vec::new(),
            want_sample: false,
            sub: sub.to_string(),
        }
    }

    /// One operation application compared with the reference.
    #[inline(always)]
    pub fn t(&mut self, n: u64) {
        self.transitions += n;
    }

    #[inline]
    pub fn cls(&mut self, c: &'static str) {
        self.cls_n(c, 1);
    }

    #[inline]
    pub fn cls_n(&mut self, c: &'static str, n: u64) {
        for e in self.classes.iter_mut() {
            if std::ptr::eq(e.0, c) || e.0 == c {
                e.1 += n;
                return;
            }
        }
        self.classes.push((c, n));
    }

    /// Record a violation.  `mk` is only evaluated when this is the smallest `ord` seen so
    /// far for its signature.
    pub fn fail<F: FnOnce() -> (String, String, String, String)>(&mut self, sig: &str, ord: u64, mk: F) {
        self.fail_state(sig, ord, None, mk)
    }

    pub fn fail_state<F: FnOnce() -> (String, String, String, String)>(
        &mut self,
        sig: &str,
        ord: u64,
        state: Option<String>,
        mk: F,
    ) {
        self.nviol += 1;
        let replace = match self.viols.get(sig) {
            None => true,
            Some(v) => ord < v.ord,
        };
        if replace {
            let (what, expected, observed, snippet) = mk();
            self.viols.insert(
                sig.to_string(),
                Violation {
                    sig: sig.to_string(),
                    sub: self.sub.clone(),
                    ord,
                    state,
                    what,
                    expected,
                    observed,
                    snippet,
                },
            );
        }
    }

    pub fn sample<F: FnOnce() -> Value>(&mut self, mk: F) {
        if self.want_sample && self.samples.len() < 3 {
            self.samples.push(mk());
        }
    }

    pub(crate) fn merge(&mut self, o: Acc) {
        self.states += o.states;
        self.transitions += o.transitions;
        self.traces += o.traces;
        self.evals += o.evals;
        self.nontrivial += o.nontrivial;
        self.nviol += o.nviol;
        for (c, n) in o.classes {
            self.cls_n(c, n);
        }
        for (k, v) in o.viols {
            let replace = match self.viols.get(&k) {
                None => true,
                Some(cur) => v.ord < cur.ord,
            };
            if replace {
                self.viols.insert(k, v);
            }
        }
        for s in o.samples {
            if self.samples.len() < 4 {
                self.samples.push(s);
            }
        }
    }

    /// Merge a per-state accumulator, stamping its violations with an order key and the state.
    pub(crate) fn merge_with_ord(&mut self, mut o: Acc, ord: u64, state: String) {
        for v in o.viols.values_mut() {
            v.ord = ord;
            if v.state.is_none() {
                v.state = Some(state.clone());
            }
        }
        self.merge(o);
    }

    pub(crate) fn annotate(&mut self, sig: &str, extra: &str) {
        if let Some(v) = self.viols.get_mut(sig) {
            v.what.push_str(extra);
        }
    }

    pub fn violations(&self) -> impl Iterator<Item = &Violation> {
        self.viols.values()
    }
}

/// Summary of one finished sub-check.
#[derive(Clone, Debug)]
pub struct SubReport {
    pub name: String,
    pub space: String,
    pub size: u64,
    pub states: u64,
    pub transitions: u64,
    pub traces: u64,
    pub evals: u64,
    pub nontrivial: u64,
    pub classes: BTreeMap<String, u64>,
    pub nviol: u64,
    pub wall_s: f64,
    pub skipped: bool,
}

impl SubReport {
    pub fn class(&self, c: &str) -> u64 {
        self.classes.get(c).copied().unwrap_or(0)
    }
}

#[derive(Clone, Debug)]
pub struct ReplayTarget {
    pub sub: String,
    pub ord: u64,
    pub state: Option<String>,
}

#[derive(Clone, Debug)]
struct Known {
    property: String,
    sig: String,
    status: String,
    what: String,
}

pub struct Ctx {
    pub prop: String,
    pub tier: Tier,
    pub seed: u64,
    pub threads: usize,
    pub root: PathBuf,
    pub profile: String,
    pub replay: Option<ReplayTarget>,
    /// child mode: print a JSON summary on stdout instead of writing evidence
    pub child: bool,
    pub(crate) subs: Vec<SubReport>,
    pub(crate) viols: BTreeMap<String, Violation>,
    pub(crate) samples: Vec<Value>,
    pub(crate) nviol_total: u64,
    machinery: Vec<String>,
    caps: Vec<String>,
    assumptions: Vec<String>,
    bounds: Map<String, Value>,
    rule: String,
    level_text: String,
    start: Instant,
    known: Vec<Known>,
    extra: Map<String, Value>,
}

impl Ctx {
    pub fn new(prop: &str, tier: Tier, seed: u64, root: PathBuf, profile: &str) -> Ctx {
        let threads = std::env::var("VERIF_THREADS")
            .ok()
            .and_then(|s| s.parse().ok())
            .unwrap_or_else(|| std::thread::available_parallelism().map(|n| n.get()).unwrap_or(4));
        let mut known = Vec::new();
        let mut machinery = Vec::new();
        let kf = root.join("known_findings.json");
        match std::fs::read_to_string(&kf) {
            Ok(s) => match serde_json::from_str::<Value>(&s) {
                Ok(v) => {
                    if let Some(arr) = v.get("findings").and_then(|a| a.as_array()) {
                        for e in arr {
                            known.push(Known {
                                property: e["property"].as_str().unwrap_or("").to_string(),
                                sig: e["signature"].as_str().unwrap_or("").to_string(),
                                status: e["status"].as_str().unwrap_or("").to_string(),
                                what: e["what"].as_str().unwrap_or("").to_string(),
                            });
                        }
                    }
                }
                Err(e) => machinery.push(format!("known_findings.json does not parse: {e}")),
            },
            Err(_) => {} // no file: nothing is known
        }
        Ctx {
            prop: prop.to_string(),
            tier,
            seed,
            threads,
            root,
            profile: profile.to_string(),
            replay: None,
            child: false,
            subs: Vec::new(),
            viols: BTreeMap::new(),
            samples: Vec::new(),
            nviol_total: 0,
            machinery,
            caps: Vec::new(),
            assumptions: Vec::new(),
            bounds: Map::new(),
            rule: String::new(),
            level_text: String::new(),
            start: Instant::now(),
            known,
            extra: Map::new(),
        }
    }

    pub fn thorough(&self) -> bool {
        self.tier.thorough()
    }

    /// Machinery failure (vacuity, nondeterminism, …): the run will exit 2.
    pub fn machinery_failure(&mut self, msg: String) {
        eprintln!("MACHINERY: {msg}");
        self.machinery.push(msg);
    }

    pub fn cap_hit(&mut self, msg: String) {
        self.caps.push(msg);
    }

    pub fn assume(&mut self, msg: &str) {
        self.assumptions.push(msg.to_string());
    }

    pub fn bound(&mut self, key: &str, v: Value) {
        self.bounds.insert(key.to_string(), v);
    }

    pub fn extra(&mut self, key: &str, v: Value) {
        self.extra.insert(key.to_string(), v);
    }

    pub fn rule(&mut self, r: &str) {
        self.rule = r.to_string();
    }

    pub fn level_text(&mut self, r: &str) {
        self.level_text = r.to_string();
    }

    pub fn add_sample(&mut self, v: Value) {
        if self.samples.len() < 12 {
            self.samples.push(v);
        }
    }

    /// Vacuity guard: the named sub-check must have produced each class at least once.
    pub fn require(&mut self, r: &SubReport, classes: &[&str]) {
        if r.skipped || self.replay.is_some() {
            return;
        }
        for c in classes {
            if r.class(c) == 0 {
                self.machinery_failure(format!(
                    "vacuity: sub-check {} never produced outcome class '{}' (classes seen: {:?})",
                    r.name, c, r.classes
                ));
            }
        }
    }

    pub(crate) fn absorb(&mut self, name: &str, space: &str, size: u64, acc: Acc, wall: f64) -> SubReport {
        let mut classes = BTreeMap::new();
        for (c, n) in acc.classes.iter() {
            *classes.entry(c.to_string()).or_insert(0) += *n;
        }
        let rep = SubReport {
            name: name.to_string(),
            space: space.to_string(),
            size,
            states: acc.states,
            transitions: acc.transitions,
            traces: acc.traces,
            evals: acc.evals,
            nontrivial: acc.nontrivial,
            classes,
            nviol: acc.nviol,
            wall_s: wall,
            skipped: false,
        };
        self.nviol_total += acc.nviol;
        for (k, v) in acc.viols {
            self.viols.entry(k).or_insert(v);
        }
        for s in acc.samples {
            if self.samples.len() < 12 {
                self.samples.push(json!({"sub": name, "case": s}));
            }
        }
        if !self.child {
            eprintln!(
                "  [{}] {:<34} size={:<12} transitions={:<13} viol={} {:.1}s  {:?}",
                self.prop, name, size, rep.transitions, rep.nviol, wall, rep.classes
            );
        }
        self.subs.push(rep.clone());
        rep
    }

    /// Record a sub-check that was executed outside the sweep / BFS engines (a single case).
    pub fn absorb_external(&mut self, name: &str, space: &str, acc: Acc) -> SubReport {
        if let Some(t) = &self.replay {
            if t.sub != name {
                return self.skipped(name);
            }
        }
        let mut acc = acc;
        acc.sub = name.to_string();
        for v in acc.viols.values_mut() {
            v.sub = name.to_string();
        }
        self.absorb(name, space, 1, acc, 0.0)
    }

    pub(crate) fn skipped(&mut self, name: &str) -> SubReport {
        SubReport {
            name: name.to_string(),
            space: String::new(),
            size: 0,
            states: 0,
            transitions: 0,
            traces: 0,
            evals: 0,
            nontrivial: 0,
            classes: BTreeMap::new(),
            nviol: 0,
            wall_s: 0.0,
            skipped: true,
        }
    }

    /// Merge the summary printed by a child process (other profile) into this run.
    pub fn absorb_child(&mut self, v: &Value) {
        if let Some(subs) = v.get("subchecks").and_then(|s| s.as_array()) {
            for s in subs {
                let mut classes = BTreeMap::new();
                if let Some(m) = s.get("classes").and_then(|c| c.as_object()) {
                    for (k, n) in m {
                        classes.insert(k.clone(), n.as_u64().unwrap_or(0));
                    }
                }
                self.subs.push(SubReport {
                    name: s["name"].as_str().unwrap_or("").to_string(),
                    space: s["space"].as_str().unwrap_or("").to_string(),
                    size: s["size"].as_u64().unwrap_or(0),
                    states: s["states"].as_u64().unwrap_or(0),
                    transitions: s["transitions"].as_u64().unwrap_or(0),
                    traces: s["traces"].as_u64().unwrap_or(0),
                    evals: s["evaluations"].as_u64().unwrap_or(0),
                    nontrivial: s["nontrivial"].as_u64().unwrap_or(0),
                    classes,
                    nviol: s["violations"].as_u64().unwrap_or(0),
                    wall_s: s["wall_s"].as_f64().unwrap_or(0.0),
                    skipped: false,
                });
            }
        }
        if let Some(vs) = v.get("violation_list").and_then(|s| s.as_array()) {
            for x in vs {
                let viol = Violation {
                    sig: x["sig"].as_str().unwrap_or("").to_string(),
                    sub: x["sub"].as_str().unwrap_or("").to_string(),
                    ord: x["ord"].as_u64().unwrap_or(0),
                    state: x["state"].as_str().map(|s| s.to_string()),
                    what: x["what"].as_str().unwrap_or("").to_string(),
                    expected: x["expected"].as_str().unwrap_or("").to_string(),
                    observed: x["observed"].as_str().unwrap_or("").to_string(),
                    snippet: x["snippet"].as_str().unwrap_or("").to_string(),
                };
                self.nviol_total += 1;
                self.viols.entry(viol.sig.clone()).or_insert(viol);
            }
        }
        if let Some(ms) = v.get("machinery").and_then(|s| s.as_array()) {
            for m in ms {
                self.machinery.push(format!("child: {}", m.as_str().unwrap_or("?")));
            }
        }
        if let Some(ss) = v.get("samples").and_then(|s| s.as_array()) {
            for s in ss {
                if self.samples.len() < 16 {
                    self.samples.push(s.clone());
                }
            }
        }
    }

    fn sub_json(&self) -> Vec<Value> {
        self.subs
            .iter()
            .map(|s| {
                json!({
                    "name": s.name, "space": s.space, "size": s.size, "states": s.states,
                    "transitions": s.transitions, "traces": s.traces, "evaluations": s.evals,
                    "nontrivial": s.nontrivial, "classes": s.classes, "violations": s.nviol,
                    "wall_s": (s.wall_s * 1000.0).round() / 1000.0
                })
            })
            .collect()
    }

    fn viol_json(v: &Violation) -> Value {
        json!({
            "sig": v.sig, "sub": v.sub, "ord": v.ord, "state": v.state, "what": v.what,
            "expected": v.expected, "observed": v.observed, "snippet": v.snippet
        })
    }

    /// Finish the run: write evidence and replay artefacts, print the verdict lines, return the
    /// process exit code (0 held / 1 new violation / 2 machinery failure).
    pub fn finish(mut self) -> i32 {
        let wall = self.start.elapsed().as_secs_f64();

        if self.child {
            let out = json!({
                "subchecks": self.sub_json(),
                "violation_list": self.viols.values().map(Self::viol_json).collect::<Vec<_>>(),
                "machinery": self.machinery,
                "samples": self.samples,
            });
            println!("CHILD-SUMMARY {}", out);
            return if !self.machinery.is_empty() { 2 } else { 0 };
        }

        // classify violations
        let mut new_v: Vec<&Violation> = Vec::new();
        let mut known_seen: Vec<(&Known, &Violation)> = Vec::new();
        for v in self.viols.values() {
            match self
                .known
                .iter()
                .find(|k| k.status == "open" && k.property == self.prop && k.sig == v.sig)
            {
                Some(k) => known_seen.push((k, v)),
                None => new_v.push(v),
            }
        }

        let replay_dir = self.root.join("replays");
        let mut replay_paths = Vec::new();
        if !new_v.is_empty() || !known_seen.is_empty() {
            let _ = std::fs::create_dir_all(&replay_dir);
        }
        let mut write_replay = |v: &Violation, prop: &str, tier: Tier, seed: u64, profile: &str| -> String {
            let clean: String = v
                .sig
                .chars()
                .map(|c| if c.is_ascii_alphanumeric() || c == '_' || c == '-' { c } else { '_' })
                .take(80)
                .collect();
            let p = replay_dir.join(format!("{}-{}.json", prop, clean));
            let profile = if v.sub.starts_with("checked/") { "checked" } else { profile };
            let body = json!({
                "property": prop, "tier": tier.name(), "seed": seed, "profile": profile,
                "sub": v.sub, "ord": v.ord, "state": v.state, "signature": v.sig,
                "what": v.what, "expected": v.expected, "observed": v.observed,
                "rust_snippet": v.snippet,
                "replay_cmd": format!("./check replay {}", p.display()),
            });
            let _ = std::fs::write(&p, serde_json::to_string_pretty(&body).unwrap());
            p.display().to_string()
        };

        if self.replay.is_some() {
            // replay mode: report what the single case did, do not touch evidence
            if self.viols.is_empty() {
                println!("REPLAY property={} result=holds (the case no longer violates the property)", self.prop);
                return if self.machinery.is_empty() { 0 } else { 2 };
            }
            for v in self.viols.values() {
                println!(
                    "REPLAY property={} result=violation sig={} what={} expected={} observed={}",
                    self.prop, v.sig, v.what, v.expected, v.observed
                );
            }
            return 1;
        }

        for v in &new_v {
            let p = write_replay(v, &self.prop, self.tier, self.seed, &self.profile);
            replay_paths.push(p);
        }
        for (_, v) in &known_seen {
            let _ = write_replay(v, &self.prop, self.tier, self.seed, &self.profile);
        }

        // totals
        let states: u64 = self.subs.iter().map(|s| s.states).sum();
        let transitions: u64 = self.subs.iter().map(|s| s.transitions).sum();
        let traces: u64 = self.subs.iter().map(|s| s.traces).sum();
        let evals: u64 = self.subs.iter().map(|s| s.evals).sum();
        let nontrivial: u64 = self.subs.iter().map(|s| s.nontrivial).sum();
        let mut classes: BTreeMap<String, u64> = BTreeMap::new();
        for s in &self.subs {
            for (c, n) in &s.classes {
                *classes.entry(c.clone()).or_insert(0) += n;
            }
        }
        if states == 0 || transitions == 0 {
            self.machinery
                .push("nothing was explored (states or transitions = 0)".to_string());
        }
        if self.samples.is_empty() {
            self.samples.push(json!({"note": "no sample captured"}));
        }

        let mut coverage = Map::new();
        coverage.insert("states".into(), json!(states));
        coverage.insert("transitions".into(), json!(transitions));
        coverage.insert("traces_validated_against_impl".into(), json!(traces));
        coverage.insert("evaluations".into(), json!(evals.max(transitions)));
        coverage.insert("distinct_nontrivial".into(), json!(nontrivial));
        coverage.insert("rule".into(), json!(self.rule));
        coverage.insert("samples".into(), json!(self.samples));
        coverage.insert("exhaustive".into(), json!(self.caps.is_empty()));
        coverage.insert("bounds".into(), Value::Object(self.bounds.clone()));
        coverage.insert("subchecks".into(), json!(self.sub_json()));
        coverage.insert("outcome_classes".into(), json!(classes));
        coverage.insert("caps_hit".into(), json!(self.caps));
        coverage.insert("threads".into(), json!(self.threads));
        coverage.insert("profile".into(), json!(self.profile));
        coverage.insert(
            "explanation".into(),
            json!(if self.level_text.is_empty() {
                "bounded exhaustive exploration of the real code in lock step with an independent reference model"
            } else {
                self.level_text.as_str()
            }),
        );
        coverage.insert(
            "new_violations".into(),
            json!(new_v.iter().map(|v| Self::viol_json(v)).collect::<Vec<_>>()),
        );
        coverage.insert(
            "known_findings_seen".into(),
            json!(known_seen
                .iter()
                .map(|(k, v)| json!({"signature": k.sig, "what": k.what, "first_case": v.what, "observed": v.observed, "expected": v.expected}))
                .collect::<Vec<_>>()),
        );
        coverage.insert("violating_cases_total".into(), json!(self.nviol_total));
        coverage.insert("machinery_failures".into(), json!(self.machinery));
        for (k, v) in self.extra.iter() {
            coverage.insert(k.clone(), v.clone());
        }

        let evidence = json!({
            "property_id": self.prop,
            "tier": self.tier.name(),
            "seed": self.seed,
            "level": "model_checking",
            "coverage": Value::Object(coverage),
            "assumptions": self.assumptions,
            "wall_s": (wall * 1000.0).round() / 1000.0,
            "violations": new_v.len(),
        });
        let evdir = self.root.join("evidence");
        let _ = std::fs::create_dir_all(&evdir);
        let evpath = evdir.join(format!("{}.json", self.prop));
        if let Err(e) = std::fs::write(&evpath, serde_json::to_string_pretty(&evidence).unwrap() + "\n") {
            self.machinery.push(format!("cannot write evidence: {e}"));
        }

        for (k, _v) in &known_seen {
            println!("KNOWN-FINDING: property={} {}", self.prop, k.what);
        }
        for (v, p) in new_v.iter().zip(replay_paths.iter()) {
            println!("VIOLATION property={} replay={}", self.prop, p);
            println!(
                "  signature={} sub={} case: {} | expected: {} | observed: {}",
                v.sig, v.sub, v.what, v.expected, v.observed
            );
        }
        println!(
            "{} {} states={} transitions={} traces={} new_violations={} known_findings={} wall={:.1}s",
            self.prop,
            self.tier.name(),
            states,
            transitions,
            traces,
            new_v.len(),
            known_seen.len(),
            wall
        );
        if !new_v.is_empty() {
            1
        } else if !self.machinery.is_empty() {
            for m in &self.machinery {
                println!("MACHINERY-FAILURE property={} {}", self.prop, m);
            }
            2
        } else {
            0
        }
    }
}
