//! Bounded language enumeration: every string of length `0..=max_len` over an alphabet of
//! byte strings (symbols may be multi-byte), addressed by a single index so that the sweep
//! engine can shard and replay it.

/// Number of strings of length exactly `len` over `k` symbols.
pub fn count_exact(k: u64, len: u32) -> u64 {
    k.pow(len)
}

/// Number of strings of length `0..=max_len`.
pub fn count_upto(k: u64, max_len: u32) -> u64 {
    (0..=max_len).map(|l| count_exact(k, l)).sum()
}

/// Decode index -> symbol indices.  Order: shorter strings first, then lexicographic by symbol
/// index with the *first* symbol most significant (simplest-first enumeration).
pub fn decode(mut idx: u64, k: u64, max_len: u32, out: &mut Vec<u8>) {
    out.clear();
    let mut len = 0u32;
    loop {
        let c = count_exact(k, len);
        if idx < c {
            break;
        }
        idx -= c;
        len += 1;
        debug_assert!(len <= max_len);
    }
    let _ = max_len;
    out.resize(len as usize, 0);
    for pos in (0..len as usize).rev() {
        out[pos] = (idx % k) as u8;
        idx /= k;
    }
}

/// Advance symbol indices to the next string in the same order (odometer); returns false on
/// wrap-around to a longer length (caller re-decodes) — cheap path for tight loops.
#[inline]
pub fn increment(sym: &mut Vec<u8>, k: u8) {
    let mut pos = sym.len();
    loop {
        if pos == 0 {
            // all wrapped: grow
            sym.push(0);
            for s in sym.iter_mut() {
                *s = 0;
            }
            return;
        }
        pos -= 1;
        if sym[pos] + 1 < k {
            sym[pos] += 1;
            return;
        }
        sym[pos] = 0;
    }
}

/// Materialise symbol indices into bytes.
#[inline]
pub fn render(sym: &[u8], alphabet: &[&[u8]], out: &mut Vec<u8>) {
    out.clear();
    for &s in sym {
        out.extend_from_slice(alphabet[s as usize]);
    }
}

#[cfg(test)]
mod tests {
    use super::*;
    #[test]
    fn order_and_increment_agree() {
        let k = 3u64;
        let n = count_upto(k, 3);
        let mut cur = Vec::new();
        let mut dec = Vec::new();
        decode(0, k, 3, &mut cur);
        for i in 0..n {
            decode(i, k, 3, &mut dec);
            assert_eq!(cur, dec, "at {i}");
            increment(&mut cur, k as u8);
        }
        assert_eq!(n, 1 + 3 + 9 + 27);
    }
}
