//! Explicit-state breadth-first closure.
//!
//! From a seed set, apply the caller's `expand` (every operation of the op table with every
//! operand of the operand pool) to every state of the current frontier; successors are
//! deduplicated against the set of all states seen so far; iterate to a depth bound.  Frontiers
//! are sorted, successors are merged in frontier order, so per-depth counts, parents and the
//! reported counterexamples are independent of thread timing and hash order.

use crate::report::{Acc, Ctx, SubReport};
use serde_json::json;
use std::collections::{HashMap, HashSet};
use std::hash::Hash;
use std::sync::atomic::{AtomicUsize, Ordering};
use std::time::Instant;

pub trait BfsState: Copy + Eq + Hash + Ord + Send + Sync {
    fn encode(&self) -> String;
    fn decode(s: &str) -> Option<Self>;
    fn show(&self) -> String;
}

#[derive(Clone, Debug, PartialEq, Eq)]
pub struct LevelCount {
    pub level: usize,
    pub frontier: u64,
    pub transitions: u64,
    pub new_states: u64,
}

impl Ctx {
    /// `expand(state, level, collect, out, acc)`: apply all transitions to `state`; push
    /// `(successor, code)` to `out` when `collect` is true; check invariants / reference
    /// agreement on every transition and report through `acc`.  `label(code)` renders a
    /// transition code for counterexample paths.
    pub fn bfs<S, F, L>(
        &mut self,
        name: &str,
        space: &str,
        seeds: &[S],
        depth: usize,
        expand: F,
        label: L,
    ) -> (SubReport, Vec<LevelCount>)
    where
        S: BfsState,
        F: Fn(&S, usize, bool, &mut Vec<(S, u32)>, &mut Acc) + Sync,
        L: Fn(u32) -> String,
    {
        if let Some(t) = self.replay.clone() {
            if t.sub != name {
                return (self.skipped(name), Vec::new());
            }
            let mut acc = Acc::new(name);
            match t.state.as_deref().and_then(S::decode) {
                Some(s) => {
                    let mut out = Vec::new();
                    expand(&s, 0, false, &mut out, &mut acc);
                }
                None => self.machinery_failure(format!("replay: cannot decode state {:?}", t.state)),
            }
            return (self.absorb(name, space, 1, acc, 0.0), Vec::new());
        }

        let t0 = Instant::now();
        let mut seen: HashSet<S> = HashSet::new();
        let mut parent: HashMap<S, (S, u32)> = HashMap::new();
        let mut frontier: Vec<S> = Vec::new();
        for s in seeds {
            if seen.insert(*s) {
                frontier.push(*s);
            }
        }
        frontier.sort();
        let mut total = Acc::new(name);
        total.states = frontier.len() as u64;
        let mut levels = Vec::new();

        for level in 0..depth {
            let collect = level + 1 < depth;
            let n = frontier.len();
            let chunk = 64usize;
            let nchunks = (n + chunk - 1) / chunk;
            let next = AtomicUsize::new(0);
            let threads = self.threads.max(1).min(nchunks.max(1));
            let fr = &frontier;
            let mut results: Vec<(usize, Vec<(S, S, u32)>, Acc)> = std::thread::scope(|sc| {
                let mut hs = Vec::new();
                for _ in 0..threads {
                    let next = &next;
                    let expand = &expand;
                    hs.push(sc.spawn(move || {
                        let mut res = Vec::new();
                        loop {
                            let c = next.fetch_add(1, Ordering::Relaxed);
                            if c >= nchunks {
                                break;
                            }
                            let mut acc = Acc::new(name);
                            acc.want_sample = level == 0 && c == 0;
                            let mut succ: Vec<(S, S, u32)> = Vec::new();
                            let mut out: Vec<(S, u32)> = Vec::new();
                            for i in c * chunk..((c + 1) * chunk).min(n) {
                                out.clear();
                                let before = acc.nviol;
                                let mut local = Acc::new(name);
                                local.want_sample = acc.want_sample && i == 0;
                                expand(&fr[i], level, collect, &mut out, &mut local);
                                // give violations of this state a deterministic order key
                                let _ = before;
                                acc.merge_with_ord(local, ((level as u64) << 40) | i as u64, fr[i].encode());
                                if collect {
                                    for (s, code) in out.iter() {
                                        succ.push((*s, fr[i], *code));
                                    }
                                }
                            }
                            res.push((c, succ, acc));
                        }
                        res
                    }));
                }
                hs.into_iter().flat_map(|h| h.join().expect("bfs worker panicked")).collect()
            });
            results.sort_by_key(|r| r.0);
            let mut new_frontier: Vec<S> = Vec::new();
            let mut level_trans = 0u64;
            for (_, succ, acc) in results {
                level_trans += acc.transitions;
                total.merge(acc);
                for (s, p, code) in succ {
                    if seen.insert(s) {
                        parent.insert(s, (p, code));
                        new_frontier.push(s);
                    }
                }
            }
            new_frontier.sort();
            levels.push(LevelCount {
                level,
                frontier: n as u64,
                transitions: level_trans,
                new_states: new_frontier.len() as u64,
            });
            total.states += new_frontier.len() as u64;
            frontier = new_frontier;
            if frontier.is_empty() {
                break;
            }
        }

        // determinism + paths for counterexamples
        let firsts: Vec<(String, Option<String>, String)> = total
            .violations()
            .map(|v| (v.sig.clone(), v.state.clone(), v.observed.clone()))
            .collect();
        for (sig, state, observed) in firsts {
            if let Some(s) = state.as_deref().and_then(S::decode) {
                for round in 0..2 {
                    let mut a = Acc::new(name);
                    let mut out = Vec::new();
                    expand(&s, 0, false, &mut out, &mut a);
                    let again = a.violations().find(|v| v.sig == sig).map(|v| v.observed.clone());
                    if again.as_deref() != Some(observed.as_str()) {
                        self.machinery_failure(format!(
                            "nondeterminism: bfs {name} state {} signature {sig} did not reproduce on re-execution {round}",
                            s.show()
                        ));
                    }
                }
                // path from a seed
                let mut path = Vec::new();
                let mut cur = s;
                while let Some((p, code)) = parent.get(&cur) {
                    path.push(format!("{} --{}--> {}", p.show(), label(*code), cur.show()));
                    cur = *p;
                }
                path.reverse();
                total.annotate(&sig, &format!(" [path from seed {}: {}]", cur.show(), path.join("; ")));
            }
        }

        let wall = t0.elapsed().as_secs_f64();
        self.extra(
            &format!("bfs_levels_{name}"),
            json!(levels
                .iter()
                .map(|l| json!({"level": l.level, "frontier": l.frontier, "transitions": l.transitions, "new_states": l.new_states}))
                .collect::<Vec<_>>()),
        );
        let size = total.states;
        (self.absorb(name, space, size, total, wall), levels)
    }
}
