//! Generic exploration engine: exhaustive sharded sweeps, explicit-state BFS closure, bounded
//! string enumeration, reporting.  Knows nothing about dates.
pub mod bfs;
pub mod report;
pub mod strings;
pub mod sweep;

pub use report::{Acc, Ctx, ReplayTarget, SubReport, Tier, Violation};
pub use serde_json;
