//! Sharded exhaustive enumeration over an index space `0..n`.
//!
//! Workers pull fixed-size chunks from an atomic counter; inside a chunk the order is
//! ascending, per-worker accumulators are merged afterwards, and the first violation per
//! signature is the one with the smallest index — so verdicts and reported counterexamples do
//! not depend on thread timing.

use crate::report::{Acc, Ctx, SubReport};
use std::ops::Range;
use std::sync::atomic::{AtomicU64, Ordering};
use std::time::Instant;

impl Ctx {
    /// Enumerate `0..n` completely.  `f` handles one chunk (a contiguous index range) and must
    /// be a pure function of the indices (that is what makes replay by index possible).
    pub fn sweep<F>(&mut self, name: &str, space: &str, n: u64, chunk: u64, f: F) -> SubReport
    where
        F: Fn(Range<u64>, &mut Acc) + Sync,
    {
        let chunk = chunk.max(1);
        // replay mode: run only the named sub-check, only the named index
        if let Some(t) = self.replay.clone() {
            if t.sub != name {
                return self.skipped(name);
            }
            let mut acc = Acc::new(name);
            if t.ord < n {
                f(t.ord..t.ord + 1, &mut acc);
            } else {
                self.machinery_failure(format!("replay index {} outside sub-check {} (size {})", t.ord, name, n));
            }
            return self.absorb(name, space, n, acc, 0.0);
        }

        let t0 = Instant::now();
        let next = AtomicU64::new(0);
        let nchunks = (n + chunk - 1) / chunk;
        let threads = self.threads.max(1).min(nchunks.max(1) as usize);
        let mut total = Acc::new(name);
        let accs: Vec<Acc> = std::thread::scope(|sc| {
            let mut hs = Vec::new();
            for w in 0..threads {
                let next = &next;
                let f = &f;
                hs.push(sc.spawn(move || {
                    let mut acc = Acc::new(name);
                    loop {
                        let c = next.fetch_add(1, Ordering::Relaxed);
                        if c >= nchunks {
                            break;
                        }
                        let lo = c * chunk;
                        let hi = (lo + chunk).min(n);
                        acc.want_sample = c == 0 || (c == nchunks / 2 && w < 64);
                        f(lo..hi, &mut acc);
                    }
                    acc
                }));
            }
            hs.into_iter().map(|h| h.join().expect("sweep worker panicked")).collect()
        });
        for a in accs {
            total.merge(a);
        }

        // determinism: every reported counterexample must reproduce, twice, from its index alone
        let firsts: Vec<(String, u64, String)> = total
            .violations()
            .map(|v| (v.sig.clone(), v.ord, v.observed.clone()))
            .collect();
        for (sig, ord, observed) in firsts {
            for round in 0..2 {
                let mut a = Acc::new(name);
                f(ord..ord + 1, &mut a);
                let again = a.violations().find(|v| v.sig == sig).map(|v| v.observed.clone());
                if again.as_deref() != Some(observed.as_str()) {
                    self.machinery_failure(format!(
                        "nondeterminism: sub-check {name} index {ord} signature {sig} did not reproduce on re-execution {round} (first: {observed}, again: {again:?})"
                    ));
                }
            }
        }
        let wall = t0.elapsed().as_secs_f64();
        self.absorb(name, space, n, total, wall)
    }

    /// Convenience: per-index body.
    pub fn sweep_each<F>(&mut self, name: &str, space: &str, n: u64, chunk: u64, f: F) -> SubReport
    where
        F: Fn(u64, &mut Acc) + Sync,
    {
        self.sweep(name, space, n, chunk, |r, acc| {
            for i in r {
                f(i, acc);
            }
        })
    }
}
