//! Documented ranges of the six types, typed in from the property texts (not imported from
//! the crate under test), in i128 so no reference computation can overflow.

pub const US_PER_SEC: i128 = 1_000_000;
pub const US_PER_MIN: i128 = 60 * US_PER_SEC;
pub const US_PER_HOUR: i128 = 60 * US_PER_MIN;
pub const US_PER_DAY: i128 = 24 * US_PER_HOUR;

/// Dates: 0001-01-01 ..= 9999-12-31 as day numbers relative to 1970-01-01
/// (the counts are re-derived by the walker in `calendar.rs` and asserted equal at start-up).
pub const DATE_MIN: i128 = -719_162;
pub const DATE_MAX: i128 = 2_932_896;

/// Timestamps: 0001-01-01 00:00:00.000000 ..= 9999-12-31 23:59:59.999999
pub const TS_MIN: i128 = DATE_MIN * US_PER_DAY;
pub const TS_MAX: i128 = (DATE_MAX + 1) * US_PER_DAY - 1;

/// Oracle-style date: whole seconds, up to 9999-12-31 23:59:59
pub const OD_MIN: i128 = TS_MIN;
pub const OD_MAX: i128 = (DATE_MAX + 1) * US_PER_DAY - US_PER_SEC;

/// Time of day: 00:00:00 ..= 23:59:59.999999
pub const TIME_MIN: i128 = 0;
pub const TIME_MAX: i128 = US_PER_DAY - 1;

/// Year-month interval: +/- 178000000-00
pub const YM_MAX: i128 = 178_000_000 * 12;
/// Day-time interval: +/- 100000000 00:00:00
pub const DT_MAX: i128 = 100_000_000 * US_PER_DAY;

#[inline]
pub fn date_ok(n: i128) -> bool {
    (DATE_MIN..=DATE_MAX).contains(&n)
}
#[inline]
pub fn ts_ok(u: i128) -> bool {
    (TS_MIN..=TS_MAX).contains(&u)
}
#[inline]
pub fn od_ok(u: i128) -> bool {
    (OD_MIN..=OD_MAX).contains(&u) && u.rem_euclid(US_PER_SEC) == 0
}
#[inline]
pub fn time_ok(u: i128) -> bool {
    (TIME_MIN..=TIME_MAX).contains(&u)
}
#[inline]
pub fn ym_ok(m: i128) -> bool {
    (-YM_MAX..=YM_MAX).contains(&m)
}
#[inline]
pub fn dt_ok(u: i128) -> bool {
    (-DT_MAX..=DT_MAX).contains(&u)
}
