//! Reference model for the sqldatetime checks.  This crate deliberately has NO dependency on
//! the crate under test.
pub mod calendar;
pub mod exact;
pub mod picture;
pub mod tables;
pub mod ranges;
