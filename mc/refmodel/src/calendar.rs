//! Reference calendar: an incremental proleptic-Gregorian walker.
//!
//! Nothing in this file is derived from the crate under test.  The only facts used are the ones
//! the properties state: months have 28/29/30/31 days, leap years come every 4 years except
//! century years not divisible by 400, day number 0 is 1970-01-01 and it is a Thursday.
//! Day numbers of other dates are obtained by *counting days* from that anchor, never by a
//! closed formula.

/// First and last supported year.
pub const MIN_YEAR: i32 = 1;
pub const MAX_YEAR: i32 = 9999;
/// The walker is allowed to run a little past the supported range so that "the next unit
/// boundary" exists for every in-range date (it may lie after 9999-12-31).
pub const WALK_MAX_YEAR: i32 = 10_200;

#[inline]
pub fn is_leap(y: i32) -> bool {
    if y % 4 != 0 {
        false
    } else if y % 100 != 0 {
        true
    } else {
        y % 400 == 0
    }
}

#[inline]
pub fn month_len(y: i32, m: u32) -> u32 {
    match m {
        1 | 3 | 5 | 7 | 8 | 10 | 12 => 31,
        4 | 6 | 9 | 11 => 30,
        2 => {
            if is_leap(y) {
                29
            } else {
                28
            }
        }
        _ => 0,
    }
}

#[inline]
pub fn year_len(y: i32) -> i32 {
    if is_leap(y) {
        366
    } else {
        365
    }
}

/// One calendar day with everything the checks need.
/// `wd`: 1 = Sunday … 7 = Saturday.  `doy`: 1-based day of year.
#[derive(Clone, Copy, Debug, PartialEq, Eq)]
pub struct Cal {
    pub n: i32,
    pub y: i32,
    pub m: u32,
    pub d: u32,
    pub wd: u32,
    pub doy: u32,
}

impl Cal {
    /// Advance by one day (28/29/30/31 rule).
    #[inline]
    pub fn next(&mut self) {
        self.n += 1;
        self.wd = if self.wd == 7 { 1 } else { self.wd + 1 };
        if self.d < month_len(self.y, self.m) {
            self.d += 1;
            self.doy += 1;
        } else if self.m < 12 {
            self.m += 1;
            self.d = 1;
            self.doy += 1;
        } else {
            self.y += 1;
            self.m = 1;
            self.d = 1;
            self.doy = 1;
        }
    }

    /// Step back by one day.
    #[inline]
    pub fn prev(&mut self) {
        self.n -= 1;
        self.wd = if self.wd == 1 { 7 } else { self.wd - 1 };
        if self.d > 1 {
            self.d -= 1;
            self.doy -= 1;
        } else if self.m > 1 {
            self.m -= 1;
            self.d = month_len(self.y, self.m);
            self.doy -= 1;
        } else {
            self.y -= 1;
            self.m = 12;
            self.d = 31;
            self.doy = year_len(self.y) as u32;
        }
    }
}

/// Per-year table built by counting from the 1970 anchor; gives random access to the walker
/// without any closed formula.
pub struct Calendar {
    /// `year_start[y]` = day number of 1 January of year `y`, for y in 0..=WALK_MAX_YEAR+1
    /// (index 0 is unused padding so the index is the year).
    year_start: Vec<i32>,
    pub min_day: i32,
    pub max_day: i32,
}

impl Calendar {
    pub fn new() -> Calendar {
        let top = (WALK_MAX_YEAR + 1) as usize;
        let mut ys = vec![0i32; top + 1];
        ys[1970] = 0;
        for y in 1970..top {
            ys[y + 1] = ys[y] + year_len(y as i32);
        }
        let mut y = 1970usize;
        while y > 1 {
            ys[y - 1] = ys[y] - year_len((y - 1) as i32);
            y -= 1;
        }
        // year 0 is not a supported year; keep a sentinel that is consistent with counting.
        ys[0] = ys[1] - 366;
        let min_day = ys[1];
        let max_day = ys[10_000] - 1;
        Calendar {
            year_start: ys,
            min_day,
            max_day,
        }
    }

    #[inline]
    pub fn year_start(&self, y: i32) -> i32 {
        self.year_start[y as usize]
    }

    /// Number of days in the supported range.
    pub fn total_days(&self) -> i64 {
        (self.max_day as i64) - (self.min_day as i64) + 1
    }

    /// Weekday of a day number: day 0 is a Thursday (= 5 with Sunday = 1).
    #[inline]
    pub fn weekday(n: i32) -> u32 {
        ((n as i64 + 4).rem_euclid(7) + 1) as u32
    }

    /// Random access: the calendar day with day number `n` (year 1 ..= WALK_MAX_YEAR).
    pub fn at(&self, n: i32) -> Cal {
        // last year whose start is <= n
        let lo = 1usize;
        let hi = (WALK_MAX_YEAR + 1) as usize;
        assert!(n >= self.year_start[lo] && n < self.year_start[hi], "reference calendar: day number {n} outside the walkable range");
        let idx = self.year_start[lo..=hi].partition_point(|&s| s <= n);
        let y = (lo + idx - 1) as i32;
        let mut rest = (n - self.year_start[y as usize]) as u32; // 0-based day of year
        let doy = rest + 1;
        let mut m = 1u32;
        loop {
            let l = month_len(y, m);
            if rest < l {
                break;
            }
            rest -= l;
            m += 1;
        }
        Cal {
            n,
            y,
            m,
            d: rest + 1,
            wd: Self::weekday(n),
            doy,
        }
    }

    /// Day number of a (y, m, d) triple that is known to be a real date in the walkable range.
    pub fn day_number(&self, y: i32, m: u32, d: u32) -> i32 {
        let mut n = self.year_start[y as usize];
        for mm in 1..m {
            n += month_len(y, mm) as i32;
        }
        n + d as i32 - 1
    }

    /// Is (y, m, d) a real date in years 1..=9999?
    pub fn is_real_date(y: i64, m: i64, d: i64) -> bool {
        if y < MIN_YEAR as i64 || y > MAX_YEAR as i64 {
            return false;
        }
        if !(1..=12).contains(&m) {
            return false;
        }
        d >= 1 && d <= month_len(y as i32, m as u32) as i64
    }
}

impl Default for Calendar {
    fn default() -> Self {
        Self::new()
    }
}

// ---------------------------------------------------------------------------------------------
// Unit boundaries (C10 / C11)
// ---------------------------------------------------------------------------------------------

/// The truncation / rounding units whose boundaries are whole days.
#[derive(Clone, Copy, Debug, PartialEq, Eq, Hash, PartialOrd, Ord)]
pub enum DayUnit {
    Century,
    Year,
    IsoYear,
    Quarter,
    Month,
    Week,
    IsoWeek,
    MonthWeek,
    SundayWeek,
}

pub const DAY_UNITS: [DayUnit; 9] = [
    DayUnit::Century,
    DayUnit::Year,
    DayUnit::IsoYear,
    DayUnit::Quarter,
    DayUnit::Month,
    DayUnit::Week,
    DayUnit::IsoWeek,
    DayUnit::MonthWeek,
    DayUnit::SundayWeek,
];

impl DayUnit {
    pub fn name(self) -> &'static str {
        match self {
            DayUnit::Century => "century",
            DayUnit::Year => "year",
            DayUnit::IsoYear => "iso_year",
            DayUnit::Quarter => "quarter",
            DayUnit::Month => "month",
            DayUnit::Week => "week",
            DayUnit::IsoWeek => "iso_week",
            DayUnit::MonthWeek => "month_start_week",
            DayUnit::SundayWeek => "sunday_start_week",
        }
    }

    /// "Does a unit of this kind start on this day?" — one independent predicate per unit.
    #[inline]
    pub fn starts_on(self, c: &Cal) -> bool {
        match self {
            // 1 January of a year that is 1 mod 100
            DayUnit::Century => c.m == 1 && c.d == 1 && c.y.rem_euclid(100) == 1,
            DayUnit::Year => c.m == 1 && c.d == 1,
            // the Monday that starts the ISO year: the Monday between 29 Dec and 4 Jan
            DayUnit::IsoYear => c.wd == 2 && ((c.m == 12 && c.d >= 29) || (c.m == 1 && c.d <= 4)),
            DayUnit::Quarter => c.d == 1 && (c.m == 1 || c.m == 4 || c.m == 7 || c.m == 10),
            DayUnit::Month => c.d == 1,
            // 7-day blocks counted from 1 January
            DayUnit::Week => (c.doy - 1) % 7 == 0,
            DayUnit::IsoWeek => c.wd == 2,
            // day 1 / 8 / 15 / 22 / 29 of the month
            DayUnit::MonthWeek => (c.d - 1) % 7 == 0,
            DayUnit::SundayWeek => c.wd == 1,
        }
    }
}

/// Sorted lists of boundary day numbers per unit, produced by one walker pass over
/// 0001-01-01 ..= (WALK_MAX_YEAR)-12-31.
pub struct Boundaries {
    pub lists: Vec<Vec<i32>>, // indexed like DAY_UNITS
}

impl Boundaries {
    pub fn build(cal: &Calendar) -> Boundaries {
        let mut lists: Vec<Vec<i32>> = DAY_UNITS.iter().map(|_| Vec::new()).collect();
        let mut c = cal.at(cal.min_day);
        let end = cal.year_start(WALK_MAX_YEAR + 1);
        while c.n < end {
            for (i, u) in DAY_UNITS.iter().enumerate() {
                if u.starts_on(&c) {
                    lists[i].push(c.n);
                }
            }
            c.next();
        }
        Boundaries { lists }
    }

    fn idx(u: DayUnit) -> usize {
        DAY_UNITS.iter().position(|&x| x == u).unwrap()
    }

    /// Latest boundary `<= n`, if one exists at or after 0001-01-01.
    pub fn trunc(&self, u: DayUnit, n: i32) -> Option<i32> {
        let l = &self.lists[Self::idx(u)];
        let k = l.partition_point(|&b| b <= n);
        if k == 0 {
            None
        } else {
            Some(l[k - 1])
        }
    }

    /// Earliest boundary `> n` (always exists inside the walkable range).
    pub fn next(&self, u: DayUnit, n: i32) -> i32 {
        let l = &self.lists[Self::idx(u)];
        let k = l.partition_point(|&b| b <= n);
        l[k]
    }

    pub fn is_boundary(&self, u: DayUnit, n: i32) -> bool {
        self.lists[Self::idx(u)].binary_search(&n).is_ok()
    }
}

/// Floor-division month arithmetic (C09): the (year, month) that is `k` months away.
#[inline]
pub fn add_months(y: i32, m: u32, k: i64) -> (i64, u32) {
    let total = 12 * (y as i64) + (m as i64 - 1) + k;
    (total.div_euclid(12), (total.rem_euclid(12) + 1) as u32)
}

#[cfg(test)]
mod tests {
    use super::*;

    #[test]
    fn anchors() {
        let cal = Calendar::new();
        assert_eq!(cal.total_days(), 3_652_059);
        assert_eq!(cal.min_day, -719_162);
        assert_eq!(cal.max_day, 2_932_896);
        let c = cal.at(0);
        assert_eq!((c.y, c.m, c.d, c.wd, c.doy), (1970, 1, 1, 5, 1));
        let mut w = cal.at(cal.min_day);
        assert_eq!((w.y, w.m, w.d), (1, 1, 1));
        for _ in 0..(cal.total_days() - 1) {
            w.next();
        }
        assert_eq!((w.y, w.m, w.d, w.n), (9999, 12, 31, cal.max_day));
        assert_eq!(w, cal.at(cal.max_day));
    }
}
