//! English month and weekday names, written out here (not imported from the crate under test).

pub const MONTH_NAMES: [&str; 12] = [
    "January", "February", "March", "April", "May", "June", "July", "August", "September", "October", "November", "December",
];

/// Index 0 = Sunday (weekday number 1).
pub const DAY_NAMES: [&str; 7] = ["Sunday", "Monday", "Tuesday", "Wednesday", "Thursday", "Friday", "Saturday"];
