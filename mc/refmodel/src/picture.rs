//! Reference model of the picture language: a table-driven, case-insensitive longest-match
//! tokenizer over the documented token list, the token × type applicability table and a
//! renderer that computes every field with integer arithmetic.  Names come from `tables.rs`.

use crate::tables::{DAY_NAMES, MONTH_NAMES};

pub const MAX_TOKENS: usize = 36;

#[derive(Clone, Copy, Debug, PartialEq, Eq, Hash)]
pub enum Case {
    Upper,
    Capital,
    Lower,
}

#[derive(Clone, Copy, Debug, PartialEq, Eq, Hash)]
pub enum Tok {
    Blank(usize),
    /// one of - : / \ , . ;
    Punct(u8),
    T,
    Year(u8),
    MM,
    Mon(Case),
    Month(Case),
    DD,
    DDD,
    D,
    Day(Case),
    Dy(Case),
    HH24,
    HH12,
    MI,
    SS,
    /// FF (None) or FF1..FF9
    FF(Option<u8>),
    /// AM / PM / A.M. / P.M.: (dotted, all letters lower-case, mixed-case spelling)
    Meridian { dotted: bool, lower: bool, mixed: bool },
    W,
    WW,
}

/// Upper-case spellings of the documented letter tokens.
const SPELLINGS: [&str; 34] = [
    "YYYY", "YYY", "YY", "Y", "MONTH", "MON", "MM", "MI", "DDD", "DD", "DAY", "DY", "D", "HH24", "HH12", "HH", "SS", "FF1", "FF2", "FF3", "FF4", "FF5", "FF6", "FF7",
    "FF8", "FF9", "FF", "A.M.", "AM", "P.M.", "PM", "WW", "W", "T",
];

fn name_case(a: u8, b: u8) -> Case {
    if a.is_ascii_lowercase() {
        Case::Lower
    } else if b.is_ascii_uppercase() {
        Case::Upper
    } else {
        Case::Capital
    }
}

fn make_tok(sp: &str, text: &[u8]) -> Tok {
    match sp {
        "YYYY" => Tok::Year(4),
        "YYY" => Tok::Year(3),
        "YY" => Tok::Year(2),
        "Y" => Tok::Year(1),
        "MONTH" => Tok::Month(name_case(text[0], text[1])),
        "MON" => Tok::Mon(name_case(text[0], text[1])),
        "MM" => Tok::MM,
        "MI" => Tok::MI,
        "DDD" => Tok::DDD,
        "DD" => Tok::DD,
        "DAY" => Tok::Day(name_case(text[0], text[1])),
        "DY" => Tok::Dy(name_case(text[0], text[1])),
        "D" => Tok::D,
        "HH24" => Tok::HH24,
        "HH12" | "HH" => Tok::HH12,
        "SS" => Tok::SS,
        "FF" => Tok::FF(None),
        "A.M." | "P.M." | "AM" | "PM" => {
            let letters: Vec<u8> = text.iter().copied().filter(|c| c.is_ascii_alphabetic()).collect();
            let all_lower = letters.iter().all(|c| c.is_ascii_lowercase());
            let all_upper = letters.iter().all(|c| c.is_ascii_uppercase());
            Tok::Meridian { dotted: sp.len() == 4, lower: all_lower, mixed: !all_lower && !all_upper }
        }
        "WW" => Tok::WW,
        "W" => Tok::W,
        "T" => Tok::T,
        _ => {
            // FF1..FF9
            Tok::FF(Some(sp.as_bytes()[2] - b'0'))
        }
    }
}

/// Tokenize a picture.  `None` = not a sequence of documented tokens (or more than 36 of them).
pub fn tokenize(pic: &[u8]) -> Option<Vec<Tok>> {
    let mut out = Vec::new();
    let mut pos = 0usize;
    while pos < pic.len() {
        let c = pic[pos];
        let (tok, len) = if c == b' ' {
            let n = pic[pos..].iter().take_while(|&&x| x == b' ').count();
            (Tok::Blank(n), n)
        } else if matches!(c, b'-' | b':' | b'/' | b'\\' | b',' | b'.' | b';') {
            (Tok::Punct(c), 1)
        } else {
            // longest case-insensitive match over the documented spellings
            let mut best: Option<(&str, usize)> = None;
            for sp in SPELLINGS.iter() {
                let n = sp.len();
                if pic.len() - pos >= n {
                    let cand = &pic[pos..pos + n];
                    let matches = if *sp == "T" { cand == b"T" } else { cand.eq_ignore_ascii_case(sp.as_bytes()) };
                    if matches && best.map_or(true, |(_, bl)| n > bl) {
                        best = Some((sp, n));
                    }
                }
            }
            match best {
                Some((sp, n)) => (make_tok(sp, &pic[pos..pos + n]), n),
                None => return None,
            }
        };
        out.push(tok);
        if out.len() > MAX_TOKENS {
            return None;
        }
        pos += len;
    }
    Some(out)
}

/// Canonical spelling of a token (used to build pictures from token sequences).
pub fn spell(t: &Tok) -> String {
    fn cs(c: Case, up: &str) -> String {
        match c {
            Case::Upper => up.to_string(),
            Case::Lower => up.to_ascii_lowercase(),
            Case::Capital => {
                let mut s = up.to_ascii_lowercase();
                s[..1].make_ascii_uppercase();
                s
            }
        }
    }
    match t {
        Tok::Blank(n) => " ".repeat(*n),
        Tok::Punct(c) => (*c as char).to_string(),
        Tok::T => "T".into(),
        Tok::Year(n) => "Y".repeat(*n as usize),
        Tok::MM => "MM".into(),
        Tok::Mon(c) => cs(*c, "MON"),
        Tok::Month(c) => cs(*c, "MONTH"),
        Tok::DD => "DD".into(),
        Tok::DDD => "DDD".into(),
        Tok::D => "D".into(),
        Tok::Day(c) => cs(*c, "DAY"),
        Tok::Dy(c) => cs(*c, "DY"),
        Tok::HH24 => "HH24".into(),
        Tok::HH12 => "HH12".into(),
        Tok::MI => "MI".into(),
        Tok::SS => "SS".into(),
        Tok::FF(None) => "FF".into(),
        Tok::FF(Some(p)) => format!("FF{p}"),
        Tok::Meridian { dotted, lower, .. } => {
            let s = if *dotted { "A.M." } else { "AM" };
            if *lower {
                s.to_ascii_lowercase()
            } else {
                s.to_string()
            }
        }
        Tok::W => "W".into(),
        Tok::WW => "WW".into(),
    }
}

#[derive(Clone, Copy, Debug, PartialEq, Eq, Hash)]
pub enum Ty {
    Date,
    Time,
    Timestamp,
    IntervalYM,
    IntervalDT,
    OracleDate,
}

pub const ALL_TYPES: [Ty; 6] = [Ty::Date, Ty::Time, Ty::Timestamp, Ty::IntervalYM, Ty::IntervalDT, Ty::OracleDate];

impl Ty {
    pub fn has_date(self) -> bool {
        matches!(self, Ty::Date | Ty::Timestamp | Ty::OracleDate)
    }
    pub fn has_time_of_day(self) -> bool {
        matches!(self, Ty::Time | Ty::Timestamp | Ty::OracleDate)
    }
    pub fn has_fraction(self) -> bool {
        matches!(self, Ty::Time | Ty::Timestamp | Ty::IntervalDT)
    }
    pub fn is_interval(self) -> bool {
        matches!(self, Ty::IntervalYM | Ty::IntervalDT)
    }
}

/// Does the token apply to (can it be rendered for) a value of this type?
pub fn applies(t: &Tok, ty: Ty) -> bool {
    match t {
        Tok::Blank(_) | Tok::Punct(_) | Tok::T => true,
        Tok::Year(_) | Tok::MM => ty.has_date() || ty == Ty::IntervalYM,
        Tok::Mon(_) | Tok::Month(_) | Tok::DDD | Tok::D | Tok::Day(_) | Tok::Dy(_) | Tok::W | Tok::WW => ty.has_date(),
        Tok::DD => ty.has_date() || ty == Ty::IntervalDT,
        Tok::HH24 | Tok::MI | Tok::SS => ty.has_time_of_day() || ty == Ty::IntervalDT,
        Tok::HH12 | Tok::Meridian { .. } => ty.has_time_of_day(),
        Tok::FF(_) => ty.has_fraction(),
    }
}

/// The fields of a value, as plain integers.
#[derive(Clone, Copy, Debug, Default, PartialEq)]
pub struct Fields {
    /// calendar year, or |years| of a year-month interval
    pub year: i64,
    /// calendar month 1..12, or |months| 0..11 of a year-month interval
    pub month: u32,
    /// day of month, or |days| of a day-time interval
    pub day: u32,
    pub hour: u32,
    pub minute: u32,
    pub second: u32,
    pub micro: u32,
    pub negative: bool,
    /// 1 = Sunday … 7 = Saturday (date types only)
    pub weekday: u32,
    /// 1-based day of year (date types only)
    pub doy: u32,
}

fn pad(v: u64, width: usize) -> String {
    format!("{:0width$}", v, width = width)
}

fn cased(name: &str, c: Case) -> String {
    match c {
        Case::Upper => name.to_ascii_uppercase(),
        Case::Lower => name.to_ascii_lowercase(),
        Case::Capital => name.to_string(),
    }
}

/// Render one token.  `None` = the token does not apply to the type.
pub fn render_tok(t: &Tok, ty: Ty, f: &Fields) -> Option<String> {
    if !applies(t, ty) {
        return None;
    }
    Some(match t {
        Tok::Blank(n) => " ".repeat(*n),
        Tok::Punct(c) => (*c as char).to_string(),
        Tok::T => "T".into(),
        Tok::Year(n) => {
            if ty == Ty::IntervalYM {
                pad(f.year as u64, *n as usize)
            } else {
                pad((f.year as u64) % 10u64.pow(*n as u32), *n as usize)
            }
        }
        Tok::MM => pad(f.month as u64, 2),
        Tok::Mon(c) => cased(&MONTH_NAMES[f.month as usize - 1][..3], *c),
        Tok::Month(c) => cased(MONTH_NAMES[f.month as usize - 1], *c),
        Tok::DD => pad(f.day as u64, 2),
        Tok::DDD => pad(f.doy as u64, 3),
        Tok::D => f.weekday.to_string(),
        Tok::Day(c) => cased(DAY_NAMES[f.weekday as usize - 1], *c),
        Tok::Dy(c) => cased(&DAY_NAMES[f.weekday as usize - 1][..3], *c),
        Tok::HH24 => pad(f.hour as u64, 2),
        Tok::HH12 => {
            let h = f.hour % 12;
            pad(if h == 0 { 12 } else { h } as u64, 2)
        }
        Tok::MI => pad(f.minute as u64, 2),
        Tok::SS => pad(f.second as u64, 2),
        Tok::FF(p) => {
            let p = p.unwrap_or(6) as u32;
            // truncated (not rounded) to p digits
            let v = if p <= 6 { f.micro as u64 / 10u64.pow(6 - p) } else { f.micro as u64 * 10u64.pow(p - 6) };
            pad(v, p as usize)
        }
        Tok::Meridian { dotted, lower, .. } => {
            let s = match (f.hour < 12, *dotted) {
                (true, false) => "AM",
                (false, false) => "PM",
                (true, true) => "A.M.",
                (false, true) => "P.M.",
            };
            if *lower {
                s.to_ascii_lowercase()
            } else {
                s.to_string()
            }
        }
        Tok::W => ((f.day - 1) / 7 + 1).to_string(),
        Tok::WW => pad(((f.doy - 1) / 7 + 1) as u64, 2),
    })
}

/// Render a whole token sequence; intervals are prefixed once with '+' or '-'.
pub fn render(toks: &[Tok], ty: Ty, f: &Fields) -> Option<String> {
    let mut s = String::new();
    if ty.is_interval() {
        s.push(if f.negative { '-' } else { '+' });
    }
    for t in toks {
        s.push_str(&render_tok(t, ty, f)?);
    }
    Some(s)
}

/// Does the rendering of this token involve letters whose case the property leaves open
/// (mixed-case meridian spelling)?
pub fn case_unspecified(t: &Tok) -> bool {
    matches!(t, Tok::Meridian { mixed: true, .. })
}

#[cfg(test)]
mod tests {
    use super::*;

    #[test]
    fn tokenizer_examples() {
        assert_eq!(tokenize(b"YYYY-MM-DD").unwrap(), vec![Tok::Year(4), Tok::Punct(b'-'), Tok::MM, Tok::Punct(b'-'), Tok::DD]);
        assert_eq!(tokenize(b"DDDD").unwrap(), vec![Tok::DDD, Tok::D]);
        assert_eq!(tokenize(b"yyyyy").unwrap(), vec![Tok::Year(4), Tok::Year(1)]);
        assert_eq!(tokenize(b"HH12HH24hh").unwrap(), vec![Tok::HH12, Tok::HH24, Tok::HH12]);
        assert!(tokenize(b"HH2").is_none());
        assert_eq!(tokenize(b"MONT").unwrap(), vec![Tok::Mon(Case::Upper), Tok::T]);
        assert!(tokenize(b"mont").is_none());
        assert_eq!(tokenize(b"Month").unwrap(), vec![Tok::Month(Case::Capital)]);
        assert_eq!(tokenize(b"mONTH").unwrap(), vec![Tok::Month(Case::Lower)]);
        assert!(tokenize(b"DA").is_none());
        assert_eq!(tokenize(b"DAM").unwrap(), vec![Tok::D, Tok::Meridian { dotted: false, lower: false, mixed: false }]);
        assert_eq!(tokenize(b"dy  a.m.").unwrap(), vec![Tok::Dy(Case::Lower), Tok::Blank(2), Tok::Meridian { dotted: true, lower: true, mixed: false }]);
        assert!(tokenize(b"FF0").is_none());
        assert_eq!(tokenize(b"FF9FF").unwrap(), vec![Tok::FF(Some(9)), Tok::FF(None)]);
        assert!(tokenize(b"\t").is_none());
        assert!(tokenize(&[b'-'; 37]).is_none());
        assert!(tokenize(&[b'-'; 36]).is_some());
    }

    #[test]
    fn render_examples() {
        let f = Fields { year: 2021, month: 4, day: 22, hour: 13, minute: 7, second: 9, micro: 123_456, negative: false, weekday: 5, doy: 112 };
        let t = tokenize(b"YYYY-MM-DD HH24:MI:SS.FF3 Dy Month W WW D DDD HH12 pm YY").unwrap();
        assert_eq!(render(&t, Ty::Timestamp, &f).unwrap(), "2021-04-22 13:07:09.123 Thu April 4 16 5 112 01 pm 21");
        assert!(render(&t, Ty::Date, &f).is_none());
    }
}
