//! Exact arithmetic for the floating-point oracles (C08 `add_days`, C14, C16).
//!
//! A finite `f64` is decoded into sign · mantissa · 2^exponent; products and quotients with
//! integers are kept as exact rationals over a minimal big unsigned integer, and every
//! comparison is done by cross-multiplication — no floating-point operation takes part in
//! deciding what the correct result is.

use std::cmp::Ordering;

/// Minimal big unsigned integer (little-endian u64 limbs).
#[derive(Clone, Debug, PartialEq, Eq)]
pub struct Big(Vec<u64>);

impl Big {
    pub fn zero() -> Big {
        Big(Vec::new())
    }
    pub fn from_u128(v: u128) -> Big {
        let mut b = Big(vec![v as u64, (v >> 64) as u64]);
        b.trim();
        b
    }
    fn trim(&mut self) {
        while let Some(&0) = self.0.last() {
            self.0.pop();
        }
    }
    pub fn is_zero(&self) -> bool {
        self.0.is_empty()
    }
    pub fn mul(&self, o: &Big) -> Big {
        if self.is_zero() || o.is_zero() {
            return Big::zero();
        }
        let mut r = vec![0u64; self.0.len() + o.0.len()];
        for (i, &a) in self.0.iter().enumerate() {
            let mut carry: u128 = 0;
            for (j, &b) in o.0.iter().enumerate() {
                let cur = r[i + j] as u128 + (a as u128) * (b as u128) + carry;
                r[i + j] = cur as u64;
                carry = cur >> 64;
            }
            let mut k = i + o.0.len();
            while carry != 0 {
                let cur = r[k] as u128 + carry;
                r[k] = cur as u64;
                carry = cur >> 64;
                k += 1;
            }
        }
        let mut b = Big(r);
        b.trim();
        b
    }
    pub fn shl(&self, bits: u32) -> Big {
        if self.is_zero() {
            return Big::zero();
        }
        let limbs = (bits / 64) as usize;
        let sh = bits % 64;
        let mut r = vec![0u64; limbs];
        if sh == 0 {
            r.extend_from_slice(&self.0);
        } else {
            let mut carry = 0u64;
            for &w in &self.0 {
                r.push((w << sh) | carry);
                carry = w >> (64 - sh);
            }
            if carry != 0 {
                r.push(carry);
            }
        }
        let mut b = Big(r);
        b.trim();
        b
    }
    pub fn add(&self, o: &Big) -> Big {
        let n = self.0.len().max(o.0.len());
        let mut r = Vec::with_capacity(n + 1);
        let mut carry = 0u128;
        for i in 0..n {
            let cur = *self.0.get(i).unwrap_or(&0) as u128 + *o.0.get(i).unwrap_or(&0) as u128 + carry;
            r.push(cur as u64);
            carry = cur >> 64;
        }
        if carry != 0 {
            r.push(carry as u64);
        }
        let mut b = Big(r);
        b.trim();
        b
    }
    /// self - o, requires self >= o
    pub fn sub(&self, o: &Big) -> Big {
        debug_assert!(self.cmp(o) != Ordering::Less);
        let mut r = Vec::with_capacity(self.0.len());
        let mut borrow = 0i128;
        for i in 0..self.0.len() {
            let mut cur = self.0[i] as i128 - *o.0.get(i).unwrap_or(&0) as i128 - borrow;
            if cur < 0 {
                cur += 1i128 << 64;
                borrow = 1;
            } else {
                borrow = 0;
            }
            r.push(cur as u64);
        }
        let mut b = Big(r);
        b.trim();
        b
    }
    pub fn cmp(&self, o: &Big) -> Ordering {
        if self.0.len() != o.0.len() {
            return self.0.len().cmp(&o.0.len());
        }
        for i in (0..self.0.len()).rev() {
            if self.0[i] != o.0[i] {
                return self.0[i].cmp(&o.0[i]);
            }
        }
        Ordering::Equal
    }
    pub fn bits(&self) -> u32 {
        match self.0.last() {
            None => 0,
            Some(&w) => (self.0.len() as u32 - 1) * 64 + (64 - w.leading_zeros()),
        }
    }
    pub fn trailing_zeros(&self) -> u32 {
        let mut n = 0;
        for &w in &self.0 {
            if w == 0 {
                n += 64;
            } else {
                return n + w.trailing_zeros();
            }
        }
        n
    }
}

/// A finite f64 as (-1)^neg · m · 2^e, m < 2^53.
#[derive(Clone, Copy, Debug, PartialEq, Eq)]
pub struct Parts {
    pub neg: bool,
    pub m: u64,
    pub e: i32,
}

/// Decode a finite f64 from its bit pattern; `None` for NaN and the infinities.
pub fn decode(f: f64) -> Option<Parts> {
    let bits = f.to_bits();
    let neg = bits >> 63 == 1;
    let exp = ((bits >> 52) & 0x7ff) as i32;
    let frac = bits & ((1u64 << 52) - 1);
    if exp == 0x7ff {
        return None;
    }
    if exp == 0 {
        Some(Parts { neg, m: frac, e: -1074 })
    } else {
        Some(Parts { neg, m: frac | (1u64 << 52), e: exp - 1075 })
    }
}

/// Exact rational number: (-1)^neg · num / den, den > 0.
#[derive(Clone, Debug)]
pub struct Rat {
    pub neg: bool,
    pub num: Big,
    pub den: Big,
}

impl Rat {
    pub fn from_int(v: i128) -> Rat {
        Rat { neg: v < 0, num: Big::from_u128(v.unsigned_abs()), den: Big::from_u128(1) }
    }
    pub fn from_parts(p: Parts) -> Rat {
        let m = Big::from_u128(p.m as u128);
        if p.e >= 0 {
            Rat { neg: p.neg && p.m != 0, num: m.shl(p.e as u32), den: Big::from_u128(1) }
        } else {
            Rat { neg: p.neg && p.m != 0, num: m, den: Big::from_u128(1).shl((-p.e) as u32) }
        }
    }
    pub fn is_zero(&self) -> bool {
        self.num.is_zero()
    }
    pub fn mul(&self, o: &Rat) -> Rat {
        let num = self.num.mul(&o.num);
        let neg = (self.neg != o.neg) && !num.is_zero();
        Rat { neg, num, den: self.den.mul(&o.den) }
    }
    /// self / o, o != 0
    pub fn div(&self, o: &Rat) -> Rat {
        assert!(!o.num.is_zero());
        let num = self.num.mul(&o.den);
        let neg = (self.neg != o.neg) && !num.is_zero();
        Rat { neg, num, den: self.den.mul(&o.num) }
    }
    pub fn abs(&self) -> Rat {
        Rat { neg: false, num: self.num.clone(), den: self.den.clone() }
    }
    pub fn negate(&self) -> Rat {
        Rat { neg: !self.neg && !self.num.is_zero(), num: self.num.clone(), den: self.den.clone() }
    }
    /// self · (1 + s·2^-k) for s = ±1 (used for relative-error bands).
    pub fn scale_rel(&self, plus: bool, k: u32) -> Rat {
        let one = Big::from_u128(1).shl(k);
        let f = if plus { one.add(&Big::from_u128(1)) } else { one.sub(&Big::from_u128(1)) };
        Rat { neg: self.neg, num: self.num.mul(&f), den: self.den.mul(&one) }
    }
    pub fn add(&self, o: &Rat) -> Rat {
        // a/b + c/d = (ad + cb) / bd with signs
        let ad = self.num.mul(&o.den);
        let cb = o.num.mul(&self.den);
        let den = self.den.mul(&o.den);
        if self.neg == o.neg {
            let num = ad.add(&cb);
            Rat { neg: self.neg && !num.is_zero(), num, den }
        } else {
            match ad.cmp(&cb) {
                Ordering::Equal => Rat { neg: false, num: Big::zero(), den },
                Ordering::Greater => Rat { neg: self.neg, num: ad.sub(&cb), den },
                Ordering::Less => Rat { neg: o.neg, num: cb.sub(&ad), den },
            }
        }
    }
    pub fn cmp(&self, o: &Rat) -> Ordering {
        match (self.neg, o.neg) {
            (false, true) => return if self.is_zero() && o.is_zero() { Ordering::Equal } else { Ordering::Greater },
            (true, false) => return if self.is_zero() && o.is_zero() { Ordering::Equal } else { Ordering::Less },
            _ => {}
        }
        let l = self.num.mul(&o.den);
        let r = o.num.mul(&self.den);
        let c = l.cmp(&r);
        if self.neg {
            c.reverse()
        } else {
            c
        }
    }
    pub fn cmp_int(&self, v: i128) -> Ordering {
        self.cmp(&Rat::from_int(v))
    }
    pub fn le_int(&self, v: i128) -> bool {
        self.cmp_int(v) != Ordering::Greater
    }
    pub fn lt_int(&self, v: i128) -> bool {
        self.cmp_int(v) == Ordering::Less
    }
    pub fn ge_int(&self, v: i128) -> bool {
        self.cmp_int(v) != Ordering::Less
    }
    pub fn gt_int(&self, v: i128) -> bool {
        self.cmp_int(v) == Ordering::Greater
    }
    /// Is the value an integer?  (den divides num; den is always a power of two times factors of
    /// the operands — decided by checking num·1 == round-trip through cross multiplication.)
    pub fn is_integer_given(&self, candidate: i128) -> bool {
        self.cmp_int(candidate) == Ordering::Equal
    }
}

/// A closed band [lo, hi] of reals (lo <= hi).
#[derive(Clone, Debug)]
pub struct Band {
    pub lo: Rat,
    pub hi: Rat,
}

impl Band {
    /// p · (1 ± 2^-k), ordered.
    pub fn relative(p: &Rat, k: u32) -> Band {
        let a = p.scale_rel(false, k);
        let b = p.scale_rel(true, k);
        if a.cmp(&b) == Ordering::Greater {
            Band { lo: b, hi: a }
        } else {
            Band { lo: a, hi: b }
        }
    }
    /// Is there a q in the band with trunc-toward-zero(q) == r ?
    pub fn admits_trunc(&self, r: i128) -> bool {
        if r > 0 {
            self.hi.ge_int(r) && self.lo.lt_int(r + 1)
        } else if r < 0 {
            self.lo.le_int(r) && self.hi.gt_int(r - 1)
        } else {
            self.lo.lt_int(1) && self.hi.gt_int(-1)
        }
    }
    /// Is there a q in the band with |trunc(q)| > limit ?
    pub fn admits_trunc_beyond(&self, limit: i128) -> bool {
        self.hi.ge_int(limit + 1) || self.lo.le_int(-(limit + 1))
    }
    /// Is there a q in the band with |q| > limit (before any truncation) ?
    pub fn admits_beyond(&self, limit: i128) -> bool {
        self.hi.gt_int(limit) || self.lo.lt_int(-limit)
    }
    /// Is there a q in the band with |trunc(q)| <= limit ?
    pub fn admits_trunc_within(&self, limit: i128) -> bool {
        self.lo.lt_int(limit + 1) && self.hi.gt_int(-(limit + 1))
    }
    /// Is there a q in the band whose nearest integer (either neighbour on a tie) is >= x ?
    pub fn admits_nearest_ge(&self, x: i128) -> bool {
        self.hi.add(&self.hi).ge_int(2 * x - 1)
    }
    /// Is there a q in the band whose nearest integer (either neighbour on a tie) is <= x ?
    pub fn admits_nearest_le(&self, x: i128) -> bool {
        self.lo.add(&self.lo).le_int(2 * x + 1)
    }
    /// Is there a q in the band whose rounding to the nearest integer (either neighbour on an
    /// exact tie) is r ?   <=>  [r - 1/2, r + 1/2] meets [lo, hi]
    pub fn admits_nearest(&self, r: i128) -> bool {
        let two_hi = self.hi.add(&self.hi);
        let two_lo = self.lo.add(&self.lo);
        two_hi.ge_int(2 * r - 1) && two_lo.le_int(2 * r + 1)
    }
}

/// Is `res` a double nearest to the real number `p` (round-to-nearest, either on a tie)?
pub fn is_nearest_double(res: f64, p: &Rat) -> bool {
    let parts = match decode(res) {
        Some(x) => x,
        None => return false,
    };
    let r = Rat::from_parts(parts);
    let dist = |a: &Rat| -> Rat { let d = a.add(&p.negate()); d.abs() };
    let d0 = dist(&r);
    let bits = res.to_bits();
    // neighbours by bit pattern (handles both signs; +0/-0 both decode to zero)
    let mut nbs: Vec<f64> = Vec::new();
    if res == 0.0 {
        nbs.push(f64::from_bits(1));
        nbs.push(-f64::from_bits(1));
    } else {
        nbs.push(f64::from_bits(bits + 1));
        nbs.push(f64::from_bits(bits - 1));
    }
    for nb in nbs {
        if let Some(pn) = decode(nb) {
            let dn = dist(&Rat::from_parts(pn));
            if dn.cmp(&d0) == Ordering::Less {
                return false;
            }
        }
    }
    true
}

/// Is the real number p exactly representable as a double?  (p given as an exact rational whose
/// denominator is a power of two.)
pub fn dyadic_fits_f64(num: &Big) -> bool {
    num.is_zero() || num.bits() - num.trailing_zeros() <= 53
}

/// |v| >= 2^1024 ?  (a product / quotient of that size is infinite in double precision)
pub fn ge_two_pow_1024(v: &Rat) -> bool {
    let lim = Rat { neg: false, num: Big::from_u128(1).shl(1024), den: Big::from_u128(1) };
    v.abs().cmp(&lim) != Ordering::Less
}

/// |v| <= largest finite double ?
pub fn le_f64_max(v: &Rat) -> bool {
    let max = Rat { neg: false, num: Big::from_u128((1u128 << 53) - 1).shl(971), den: Big::from_u128(1) };
    v.abs().cmp(&max) != Ordering::Greater
}

#[cfg(test)]
mod tests {
    use super::*;

    #[test]
    fn decode_roundtrip() {
        for f in [0.0f64, -0.0, 1.0, 0.1, -2.5, 1e300, 5e-324, f64::MAX, f64::MIN_POSITIVE] {
            let p = decode(f).unwrap();
            let back = (p.m as f64) * 2f64.powi(p.e.max(-1000)) * 2f64.powi(p.e - p.e.max(-1000));
            assert_eq!(back.abs(), f.abs(), "{f}");
        }
        assert!(decode(f64::NAN).is_none());
        assert!(decode(f64::INFINITY).is_none());
    }

    #[test]
    fn rat_cmp() {
        let tenth = Rat::from_parts(decode(0.1).unwrap());
        // 0.1 as a double is slightly above 1/10
        let ten = Rat::from_int(10);
        let one = tenth.mul(&ten);
        assert_eq!(one.cmp_int(1), Ordering::Greater);
        assert!(one.lt_int(2));
        let q = Rat::from_int(7).div(&Rat::from_int(2));
        assert!(q.gt_int(3) && q.lt_int(4));
        let b = Band::relative(&q, 52);
        assert!(b.admits_trunc(3) && !b.admits_trunc(4) && !b.admits_trunc(2));
        assert!(b.admits_nearest(3) && b.admits_nearest(4) && !b.admits_nearest(5));
        let n = Rat::from_int(-7).div(&Rat::from_int(2));
        let b = Band::relative(&n, 52);
        assert!(b.admits_trunc(-3) && !b.admits_trunc(-4));
        let s = q.add(&n);
        assert!(s.is_zero());
    }

    #[test]
    fn nearest_double() {
        let third = Rat::from_int(1).div(&Rat::from_int(3));
        assert!(is_nearest_double(1.0 / 3.0, &third));
        assert!(!is_nearest_double(f64::from_bits((1.0f64 / 3.0).to_bits() + 1), &third));
        assert!(is_nearest_double(2.0, &Rat::from_int(2)));
        assert!(is_nearest_double(-0.5, &Rat::from_int(-1).div(&Rat::from_int(2))));
        let b = Band { lo: Rat::from_int(7).div(&Rat::from_int(2)), hi: Rat::from_int(7).div(&Rat::from_int(2)) };
        assert!(b.admits_nearest_ge(4) && !b.admits_nearest_ge(5) && b.admits_nearest_le(3) && !b.admits_nearest_le(2));
    }

    #[test]
    fn big_ops() {
        let a = Big::from_u128(u128::MAX);
        let b = a.mul(&a);
        assert_eq!(b.bits(), 256);
        let c = b.sub(&a).add(&a);
        assert_eq!(c, b);
        assert_eq!(Big::from_u128(1).shl(200).bits(), 201);
        assert_eq!(Big::from_u128(8).trailing_zeros(), 3);
    }
}
