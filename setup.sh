#!/usr/bin/env bash
# MANIFEST.setup_cmd: build the framework offline from files on disk only (both profiles).
set -eu
ROOT="$(cd "$(dirname "${BASH_SOURCE[0]}")" && pwd)"
export CARGO_NET_OFFLINE=true
cd "$ROOT/mc"
cargo build --offline --profile fast -p sqldt-mc
cargo build --offline --profile checked -p sqldt-mc
mkdir -p "$ROOT/evidence" "$ROOT/replays"
echo "setup ok"
