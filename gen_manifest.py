#!/usr/bin/env python3
"""Writes /verif/MANIFEST.json from the table below (single source of truth for the interface)."""
import json, os, sys

ROOT = os.path.dirname(os.path.abspath(__file__))

# id -> (technique, level text, level note, design ref)
CHECKS = {
    "C01": (
        "exhaustive enumeration of all day numbers, all 2^32 raw i32 and a (y,m,d) triple grid against a day-counting reference walker",
        "Every in-range day number (3,652,059), every raw i32 and every triple of the grid is executed on the real code and compared with an independent day-counting calendar walker; the value space of the property is enumerated completely, so a wrong constant, leap rule, month table, weekday offset or range gate is found with certainty.",
        "Trusted: the reference walker (28/29/30/31 rule + leap rule + 1970-01-01 = day 0 = Thursday), rustc arithmetic. Triples outside the grid (years beyond -400..10400 other than the listed extremes) are not enumerated.",
        "DESIGN.md §4 C01",
    ),
}

NOT_BUILT_REASON = "check not built yet in this round (work in progress; planned in DESIGN.md §4) — not claimed until its machinery exists and passes on the unchanged tree"

def main():
    props = [json.loads(l) for l in open(os.path.join(ROOT, "properties.jsonl"))]
    checks, na = [], []
    for p in props:
        pid = p["id"]
        if pid in CHECKS:
            tech, text, note, ref = CHECKS[pid]
            checks.append({
                "property_id": pid,
                "quick_cmd": f"./check {pid} quick",
                "thorough_cmd": f"./check {pid} thorough",
                "evidence_file": f"/verif/evidence/{pid}.json",
                "replay_cmd_template": "./check replay {path}",
                "engine": "sqldt-mc",
                "level_claimed": {"category": "model_checking", "text": text, "design_ref": ref},
                "level_note": note,
                "technique": tech,
            })
        else:
            na.append({"property_id": pid, "reason": NOT_BUILT_REASON})
    m = {
        "version": 1,
        "setup_cmd": "./setup.sh",
        "hooks": {
            "guard": "cargo feature `verif-hooks` of the sqldatetime crate",
            "enable": "the harness crate depends on sqldatetime = { path = \"/repo\", features = [\"serde\", \"oracle\", \"verif-hooks\"] }; every ./check invocation runs cargo build against /repo's working tree",
            "baseline_off_cmd": "cd /repo && cargo test --workspace --no-fail-fast --offline",
            "source_commits": [l.strip() for l in open(os.path.join(ROOT, "hook_commits.txt")) if l.strip()],
            "add_only": True,
        },
        "engines": [{
            "name": "sqldt-mc",
            "path": "/verif/mc",
            "serves_properties": sorted(CHECKS.keys()),
            "kind_free_text": "explicit-state bounded exhaustive exploration of the real crate (flat sweeps over complete value spaces, BFS closure over an operation table, bounded string-language enumeration) in lock step with an independent Rust reference model",
        }],
        "checks": checks,
        "notes": "Exit codes of every check: 0 held / 1 new violation (VIOLATION line) / 2 machinery failure. Known findings: /verif/known_findings.json. See DESIGN.md.",
        "not_applicable": na,
    }
    json.dump(m, open(os.path.join(ROOT, "MANIFEST.json"), "w"), indent=1)
    print("MANIFEST.json written:", len(checks), "checks,", len(na), "not claimed")

if __name__ == "__main__":
    main()
