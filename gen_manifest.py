#!/usr/bin/env python3
"""Writes /verif/MANIFEST.json from the table below (single source of truth for the interface)."""
import json, os, sys

ROOT = os.path.dirname(os.path.abspath(__file__))

# id -> (technique, level text, level note, design ref)
CHECKS = {
    "C01": (
        "exhaustive enumeration of all day numbers, all 2^32 raw i32 and a (y,m,d) triple grid against a day-counting reference walker",
        "Every in-range day number (3,652,059), every raw i32 and every triple of the grid is executed on the real code and compared with an independent day-counting calendar walker; the value space of the property is enumerated completely, so a wrong constant, leap rule, month table, weekday offset or range gate is found with certainty.",
        "Trusted: the reference walker (28/29/30/31 rule + leap rule + 1970-01-01 = day 0 = Thursday), rustc arithmetic. Triples outside the grid (years beyond -400..10400 other than the listed extremes) are not enumerated.",
        "DESIGN.md §4 C01",
    ),

    "C07": (
        "exhaustive enumeration: all dates x critical times, all seconds / microseconds of the day (thorough: all 8.64e10 µs), full validity grid, against i128 floor arithmetic",
        "Every date crossed with every critical time of day (both sides of midnight, noon and each rounding midpoint, plus a seed-derived time) is combined into a timestamp on the real code and split again; every second of the day, every microsecond at selected seconds (thorough: every microsecond of the day) and the complete (h,mi,s,µs) validity grid including u32 extremes go through the time-of-day constructors; results are compared with integer floor arithmetic and the calendar walker, and Eq/Ord/Hash are checked along the enumeration order.",
        "Trusted: reference walker and i128 arithmetic; std DefaultHasher. Timestamps at times of day outside the critical set are covered only through the seed-derived time per date.",
        "DESIGN.md §4 C07",
    ),
    "C09": (
        "exhaustive enumeration: all dates x month offsets (-40..=40 quick, -400..=400 thorough, plus range-reaching and limit offsets) x 3 types x add/sub against floor-division month arithmetic",
        "For every date, every offset of the bound and both directions, on Date, Timestamp (rotating critical times) and OracleDate, the real result is compared with floor-division month arithmetic: same day of month and time of day, or an error exactly when the target month lacks the day or the year leaves 1..9999; last-day-of-month is checked for every date on the three types.",
        "Trusted: reference month arithmetic (12*y+m-1+k by floor division) and month-length rule. Offsets outside the stated bound are covered only by the per-date range-reaching / limit / seed-derived offsets.",
        "DESIGN.md §4 C09",
    ),
    "C10": (
        "exhaustive enumeration: all dates x 12 units (Date), all dates x critical times x 12 units (Timestamp, OracleDate), every second of selected days, against per-unit boundary predicates",
        "Truncation of every date (and every date at every critical time, and every second of 29 selected days) for each of the 12 units on the three types is compared with 'the latest boundary <= input', where boundaries come from one independent predicate per unit evaluated by the day-counting walker; idempotence, never-forward and monotonicity are asserted as well; failure is required exactly when no boundary exists at or after 0001-01-01.",
        "Trusted: the per-unit boundary predicates in refmodel/calendar.rs and the walker.",
        "DESIGN.md §4 C10",
    ),
    "C11": (
        "exhaustive enumeration: same spaces as C10 with the Round methods, against boundary predicates plus the documented midpoints",
        "Rounding of every date / every date at every critical time (both sides of 12:00, :30, :30s) / every second of selected days, 12 units, three types, compared with T/N from the independent boundary predicates and the documented midpoint per unit; boundary inputs must be unchanged; monotonicity is asserted along the sweep (except ISO year); failure required exactly when the chosen boundary is outside the range. Shortened weeks only require membership in {T, N}, monotonicity and Date/Timestamp agreement.",
        "Trusted: boundary predicates, midpoint table typed from the trait documentation. One open known finding (F2, round_century for years divisible by 100) is suppressed by signature.",
        "DESIGN.md §4 C11",
    ),
}

NOT_BUILT_REASON = "check not built yet in this round (work in progress; planned in DESIGN.md §4) — not claimed until its machinery exists and passes on the unchanged tree"

def main():
    props = [json.loads(l) for l in open(os.path.join(ROOT, "properties.jsonl"))]
    checks, na = [], []
    for p in props:
        pid = p["id"]
        if pid in CHECKS:
            tech, text, note, ref = CHECKS[pid]
            checks.append({
                "property_id": pid,
                "quick_cmd": f"./check {pid} quick",
                "thorough_cmd": f"./check {pid} thorough",
                "evidence_file": f"/verif/evidence/{pid}.json",
                "replay_cmd_template": "./check replay {path}",
                "engine": "sqldt-mc",
                "level_claimed": {"category": "model_checking", "text": text, "design_ref": ref},
                "level_note": note,
                "technique": tech,
            })
        else:
            na.append({"property_id": pid, "reason": NOT_BUILT_REASON})
    m = {
        "version": 1,
        "setup_cmd": "./setup.sh",
        "hooks": {
            "guard": "cargo feature `verif-hooks` of the sqldatetime crate",
            "enable": "the harness crate depends on sqldatetime = { path = \"/repo\", features = [\"serde\", \"oracle\", \"verif-hooks\"] }; every ./check invocation runs cargo build against /repo's working tree",
            "baseline_off_cmd": "cd /repo && cargo test --workspace --no-fail-fast --offline",
            "source_commits": [l.strip() for l in open(os.path.join(ROOT, "hook_commits.txt")) if l.strip()],
            "add_only": True,
        },
        "engines": [{
            "name": "sqldt-mc",
            "path": "/verif/mc",
            "serves_properties": sorted(CHECKS.keys()),
            "kind_free_text": "explicit-state bounded exhaustive exploration of the real crate (flat sweeps over complete value spaces, BFS closure over an operation table, bounded string-language enumeration) in lock step with an independent Rust reference model",
        }],
        "checks": checks,
        "notes": "Exit codes of every check: 0 held / 1 new violation (VIOLATION line) / 2 machinery failure. Known findings: /verif/known_findings.json. See DESIGN.md.",
        "not_applicable": na,
    }
    json.dump(m, open(os.path.join(ROOT, "MANIFEST.json"), "w"), indent=1)
    print("MANIFEST.json written:", len(checks), "checks,", len(na), "not claimed")

if __name__ == "__main__":
    main()
