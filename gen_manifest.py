#!/usr/bin/env python3
"""Writes /verif/MANIFEST.json from the table below (single source of truth for the interface)."""
import json, os, sys

ROOT = os.path.dirname(os.path.abspath(__file__))

# id -> (technique, level text, level note, design ref)
CHECKS = {
    "C01": (
        "exhaustive enumeration of all day numbers, all 2^32 raw i32 and a (y,m,d) triple grid against a day-counting reference walker; model-free pairwise history independence (every ordered pair of a call alphabet, incl. the same call twice and failing calls, on a fresh thread against the lone call)",
        "Every in-range day number (3,652,059), every raw i32 and every triple of the grid is executed on the real code (through the checked and, with valid input, the unchecked constructors) and compared with an independent day-counting calendar walker; the value space of the property is enumerated completely, so a wrong constant, leap rule, month table, weekday offset or range gate is found with certainty.",
        "Trusted: the reference walker (28/29/30/31 rule + leap rule + 1970-01-01 = day 0 = Thursday), rustc arithmetic. Triples outside the grid (years beyond -400..10400 other than the listed extremes) are not enumerated. Hidden state is explored to depth 3 from a fresh thread over a structured alphabet, by alternation of every date with two anchors, and for the first call of a fresh process; longer histories are outside the bound.",
        "DESIGN.md §4 C01",
    ),

    "C07": (
        "exhaustive enumeration: all dates x critical times, all seconds / microseconds of the day (thorough: all 8.64e10 µs), full validity grid, against i128 floor arithmetic; model-free pairwise history independence over the operation table / field accessors (fresh-thread pairs of a small alphabet, back-to-back pairs of a large one, against the lone call)",
        "Every date crossed with every critical time of day (both sides of midnight, noon and each rounding midpoint, plus a seed-derived time) is combined into a timestamp on the real code and split again; every second of the day, every microsecond at selected seconds (thorough: every microsecond of the day) and the complete (h,mi,s,µs) validity grid including u32 extremes go through the time-of-day constructors; results are compared with integer floor arithmetic and the calendar walker, and Eq/Ord/Hash are checked along the enumeration order.",
        "Trusted: reference walker and i128 arithmetic; std DefaultHasher. Timestamps at times of day outside the critical set are covered only through the seed-derived time per date.",
        "DESIGN.md §4 C07",
    ),
    "C09": (
        "exhaustive enumeration: all dates x month offsets (-40..=40 quick, -400..=400 thorough, plus range-reaching and limit offsets) x 3 types x add/sub against floor-division month arithmetic; the complete space of year-month intervals (all 4,272,000,001) on 2 anchor dates (thorough: 4)",
        "For every date, every offset of the bound and both directions, on Date, Timestamp (rotating critical times) and OracleDate, the real result is compared with floor-division month arithmetic: same day of month and time of day, or an error exactly when the target month lacks the day or the year leaves 1..9999; last-day-of-month is checked for every date on the three types.",
        "Trusted: reference month arithmetic (12*y+m-1+k by floor division) and month-length rule. Offsets outside the stated bound are covered only by the per-date range-reaching / limit / seed-derived offsets.",
        "DESIGN.md §4 C09",
    ),
    "C10": (
        "exhaustive enumeration: all dates x 12 units (Date), all dates x critical times x 12 units (Timestamp, OracleDate), every second of selected days, against per-unit boundary predicates; explicit exploration of call histories (depth <= 3 on fresh threads, alternation with anchors over all dates, first call of a fresh process); every microsecond of three one-minute windows around decision points (thorough: of one hour across the epoch, and every whole second of one full 400-year cycle on the Oracle-style date)",
        "Truncation of every date (and every date at every critical time, and every second of 29 selected days) for each of the 12 units on the three types is compared with 'the latest boundary <= input', where boundaries come from one independent predicate per unit evaluated by the day-counting walker; idempotence, never-forward and monotonicity are asserted as well; failure is required exactly when no boundary exists at or after 0001-01-01. Rounding / truncation rules that depend on the time of day are periodic in the minute, the hour and the day, so the complete minute (hour) at microsecond resolution and the complete 400-year cycle (146,097 days, a whole number of weeks) at second resolution are complete sub-spaces, not samples.",
        "Trusted: the per-unit boundary predicates in refmodel/calendar.rs and the walker.",
        "DESIGN.md §4 C10",
    ),
    "C11": (
        "exhaustive enumeration: same spaces as C10 with the Round methods, against boundary predicates plus the documented midpoints; the same call-history exploration as C10; every microsecond of three one-minute windows around decision points (thorough: of one hour across the epoch, and every whole second of one full 400-year cycle on the Oracle-style date)",
        "Rounding of every date / every date at every critical time (both sides of 12:00, :30, :30s) / every second of selected days, 12 units, three types, compared with T/N from the independent boundary predicates and the documented midpoint per unit; boundary inputs must be unchanged; monotonicity is asserted along the sweep (except ISO year); failure required exactly when the chosen boundary is outside the range. Shortened weeks only require membership in {T, N}, monotonicity and Date/Timestamp agreement.",
        "Trusted: boundary predicates, midpoint table typed from the trait documentation. One open known finding (F2, round_century for years divisible by 100) is suppressed by signature. Where the chosen boundary would lie before 0001-01-01 (Sunday week of the first days) both a failure and the only in-range adjacent boundary are admitted.",
        "DESIGN.md §4 C11",
    ),

    "C02": (
        "explicit-state BFS closure over the complete op table (depth 3 quick / 4 thorough, deduplicated by value) plus a flat sweep of all dates x 25 operations x 3 types; invariant: every returned value in its documented range; integers of every width handed over by serde's value deserializers and raw bincode integers: an out-of-range number must be an error, never a wrapped or clamped value; model-free pairwise history independence over the operation table / field accessors (fresh-thread pairs of a small alphabet, back-to-back pairs of a large one, against the lone call)",
        "From boundary pools of the six types every safe public operation (constructors, conversions, all add/sub variants, last day of month, 24 trunc/round methods, negate, float scaling, format->parse) is applied with every operand of the operand alphabets, successors are deduplicated and expanded again to the depth bound; every returned value must lie inside the documented range of its type, and wherever an exact i128 / calendar result exists and lies outside the range the call must fail instead of returning a wrapped or clamped value. The flat sweep applies all trunc/round/last-day operations to every date on the three types.",
        "Trusted: documented ranges typed in from the property; reference steps in optable.rs. States not reachable within the depth bound from the pools are not covered; float-operand operations only get the range invariant here (C08/C14/C16 decide their values).",
        "DESIGN.md §4 C02",
    ),
    "C08": (
        "BFS closure restricted to linear operations in exact lock step with i128 arithmetic, full cross product of typed boundary pools for every linear operation with inverse laws, all dates x day offsets, exact-rational band for fractional days; model-free pairwise history independence over the operation table / field accessors (fresh-thread pairs of a small alphabet, back-to-back pairs of a large one, against the lone call)",
        "Every linear operation (date +/- days, date/timestamp +/- time and day-time interval, all difference variants, interval +/- interval) is executed on the real code for the full cross product of the boundary pools and for every transition of the closure, and must equal exact 128-bit arithmetic: Ok(exact) iff the exact result is inside the result type's range, Err otherwise; x+i-i = x, (x+i)-x = i and a-b = -(b-a) are checked through the real code; every date is crossed with day offsets reaching exactly and one past each range end; Timestamp::add_days/sub_days is compared with the exact rational product rounded to the nearest microsecond.",
        "Trusted: i128 arithmetic, exact.rs rational arithmetic. i64 operands that are neither pool members nor reachable in the closure are not covered.",
        "DESIGN.md §4 C08",
    ),
    "C12": (
        "exhaustive enumeration: every second of the day x boundary microseconds x interval alphabet x add/sub; pool^2 differences; interval->time conversion; mixed comparisons, against rem_euclid in i128; thorough: the complete product of every second of the day x every whole-second interval within +/-1 day, and every pair of seconds for the difference; model-free pairwise history independence over the operation table / field accessors (fresh-thread pairs of a small alphabet, back-to-back pairs of a large one, against the lone call)",
        "Every second of the day (at µs 0, 1, 999999) is combined with every member of the interval alphabet (0, +/-1 µs, +/-1 day -/+ 1 µs, whole days, the range limits, seed-derived values) through add and sub on the real code and compared with (time +/- interval) mod 24h; all ordered pairs of the time pool and every second against midnight/noon/last µs give the exact signed difference; every second within +/-2 days converts to |interval| mod 1 day; all six comparison operators in both argument orders equal the numeric comparison.",
        "Trusted: i128 rem_euclid. Intervals outside the alphabet and the +/-2-day second grid are not enumerated.",
        "DESIGN.md §4 C12",
    ),
    "C13": (
        "exhaustive enumeration of all 2^32 month counts (every one of the 4,272,000,001 year-month intervals), structured day-time interval set, every second within +/-2 days (thorough: +/-40), full constructor validity grids; model-free pairwise history independence over the operation table / field accessors (fresh-thread pairs of a small alphabet, back-to-back pairs of a large one, against the lone call)",
        "Every i32 goes through try_from_months (accepted iff within +/-2,136,000,000); for every accepted value extract, the field constructor, negation (involution, range onto itself), the signed accessors and ordering are compared with integer division; day-time intervals at every power of ten and unit multiple +/-1, every second within the bound, the range limits and i64 extremes get the same treatment; the constructor grids including u32 extremes must accept exactly the tuples whose fields are in bounds and whose total is within the limit.",
        "Trusted: i128 division. Day-time interval values outside the structured set are not enumerated (the i64 space is not enumerable).",
        "DESIGN.md §4 C13",
    ),
    "C14": (
        "exhaustive cross product of receiver pools x a float operand alphabet (special values, integers, dyadic and decimal grids, tiny/huge, signed zero, infinities, NaN) x mul/div, judged by exact rational arithmetic with a 2^-52 band; complete product of a window of counts (+/-120, thorough +/-1200, as months and microseconds) x every multiple of 1/16 in +/-32 (thorough +/-256); model-free pairwise history independence over the operation table / field accessors (fresh-thread pairs of a small alphabet, back-to-back pairs of a large one, against the lone call)",
        "Each (receiver, operand, operation) triple runs on the real code; the reference decodes the double into sign/mantissa/exponent and computes the real product or quotient as an exact rational; a returned value must be the truncation toward zero of a number within relative 2^-52 of it, exactly x*k when that is an exactly representable integer below 2^53, and errors must be classified as the property states (NaN -> invalid number, infinite result -> numeric overflow, zero divisor -> divide by zero first, finite out-of-range -> interval range); (-x)*k = -(x*k) = x*(-k) is compared directly.",
        "Trusted: refmodel/exact.rs (big-integer rational arithmetic, unit-tested). Only the operand alphabet is covered, not all doubles; exactness beyond the 2^-52 band is demanded for multiplication only, as the property states. Two-step call histories over a small structured alphabet run on fresh threads. A finite real result beyond the double range may be reported as numeric overflow or as an interval-range error (both readings of the wording are admitted).",
        "DESIGN.md §4 C14",
    ),
    "C16": (
        "exhaustive enumeration of all dates x whole-second critical times x 5 sub-second parts for the conversions; BFS closure with the whole-second invariant on every Oracle-date result; pool cross products; exact-rational nearest-second and correctly-rounded-double oracles; model-free pairwise history independence over the operation table / field accessors (fresh-thread pairs of a small alphabet, back-to-back pairs of a large one, against the lone call)",
        "Every conversion of a timestamp to the Oracle-style date (all dates, critical seconds, sub-second 0/1/499999/500000/999999, also before 1970) must floor to the second; every Oracle-style date produced anywhere in the op-table closure must be a whole second inside the range and equal the exact reference where one exists; adding intervals must equal the timestamp result floored; add_days/sub_days (and the Timestamp::oracle_* variants) must be the nearest second of the exact-rational timestamp result at base dates over the whole range; sub_date must be the correctly rounded quotient for pool^2 and all dates against first/epoch/last. The raw constructor may reject an instant with a sub-second part or floor it; fractional-day sums that lie less than half a second before the first instant may fail or round to the first second (both admitted by the wording).",
        "Trusted: exact.rs; day-offset alphabet and base dates are a subset of the f64 x i64 space. One small sub-check (OracleDate::now() and TryFrom<Time> under 210 injected clocks with sub-second parts) uses the verif-hooks clock override.",
        "DESIGN.md §4 C16",
    ),
    "C17": (
        "exhaustive differential enumeration: all dates x every shared operation through Date, Timestamp@00:00 and OracleDate@00:00; all dates x whole-second critical times through Timestamp and OracleDate; mixed comparisons in both argument orders; model-free pairwise history independence over the operation table / field accessors (fresh-thread pairs of a small alphabet, back-to-back pairs of a large one, against the lone call)",
        "For every date each shared operation (24 trunc/round, last day of month, +/- year-month and day-time intervals, +/- time, all difference variants) is executed through each of the types and the results must correspond under the embeddings (Err <=> Err included); every date at every whole-second critical time is run through Timestamp and OracleDate; all six comparison operators and partial_cmp for Date/Timestamp, Date/OracleDate and OracleDate/Timestamp in both argument orders must equal the comparison of the converted values.",
        "No reference model: purely differential, so it cannot see a defect shared by all types (C09-C11 cover those).",
        "DESIGN.md §4 C17",
    ),

    "C04": (
        "exhaustive enumeration: all dates x every date token spelling x 3 types, all seconds x every time token, all microseconds x FF/FF1-9, interval value grids, every token sequence of length <= 3 x value pools of all six types, against an integer-arithmetic reference renderer; model-free pairwise history independence (every ordered pair of a call alphabet, incl. the same call twice and failing calls, on a fresh thread against the lone call)",
        "Every (value, picture) pair of the enumerated spaces is formatted by the real code and must equal, byte for byte, the reference rendering of the reference token sequence; every (token, type) pair is also pushed through value.format(..) + write! into a String sink, where an inapplicable token must surface as an error and never as text or a panic.",
        "Trusted: refmodel/picture.rs renderer and applicability table, own name tables. Output case of mixed-case AM/PM spellings is compared case-insensitively (undefined by the property). Pictures longer than 3 tokens are covered by the rotation family only.",
        "DESIGN.md §4 C04",
    ),
    "C05": (
        "model = generator: exhaustive (year, day-of-year) pairs, all dates x 9 pictures x weekday consistency, all seconds x 7 clock notations x 3 types, all 6/7-digit (thorough 8-digit) fractions and nine-digit ties, carry chain, deviation-bounded lenient spellings (<= 3 quick / 4 thorough deviations at all positions), rejection families; model-free pairwise history independence (every ordered pair of a call alphabet, incl. the same call twice and failing calls, on a fresh thread against the lone call)",
        "Texts are generated from (type, picture, value, spelling choices), so the denoted value is known by construction; every generated text is parsed by the real code and must return exactly that value; every text of the rejection families (out-of-domain component, disagreeing redundant fields, repeated code, HH24 with meridian, output-only / inapplicable code, left-over input) must fail with an error. The deviation is the unit of the bound (iterative-context-bounding transplanted to a parser): all combinations of at most k lenient spellings at all positions are enumerated.",
        "Trusted: refmodel renderer + spell.rs generator and its 'denoted value' function. Spellings the properties leave open (12-hour field without meridian, partial dates, partial interval pictures, ambiguous digit runs) are not generated. Input texts outside the generated families are not covered.",
        "DESIGN.md §4 C05",
    ),
    "C19": (
        "bounded language enumeration: every string of length <= 5 (thorough 6) over a 40-symbol alphabet, every token spelling at positions 34..38, rotations of the token list up to 40 tokens, blank runs of every length 1..=600, against a reference longest-match tokenizer through a probe rendering; every ASCII character and 11 non-ASCII ones in six picture contexts, every ASCII pair in two; model-free pairwise history independence (every ordered pair of a call alphabet, incl. the same call twice and failing calls, on a fresh thread against the lone call)",
        "Each string is compiled by the real Formatter::try_new; it must be accepted iff the reference tokenizer splits it into at most 36 documented tokens, rejection must be Error::InvalidFormat, and on acceptance the text produced for a probe timestamp with pairwise distinct field renderings must equal the reference rendering of the reference token sequence — which identifies the token sequence, the name style chosen from the first two letters and the blank-run length.",
        "Trusted: refmodel tokenizer/renderer. The lexer looks ahead at most 5 bytes and carries no state between tokens, so length <= 6 covers every first-token decision with every following byte; longer pictures are covered by the bounded token language (all sequences of <= 6 / 7 tokens over an 18-token alphabet), the well-known pictures in five letter-case variants through each type's own entry point, and the blank-run families (every length to 600, powers of two to 2^17 / 2^22).",
        "DESIGN.md §4 C19",
    ),

    "C03": (
        "exhaustive no-panic exploration in two build profiles (fast; checked = overflow-checks + debug-assertions, run as a child process): op-table BFS closure with scalar extremes, all dates / seconds / microseconds through accessors and tokens, every picture string of length <= 5 (thorough 6), every input of length <= 4 under every single token and <= 3 under every token pair (thorough 5 / 4) for all six types, run-length families 0..=600; model-free pairwise history independence over the operation table / field accessors (fresh-thread pairs of a small alphabet, back-to-back pairs of a large one, against the lone call)",
        "Every call is wrapped in catch_unwind and only 'returns normally' is asserted, so the bound is pure coverage: the complete op table from boundary pools with NaN / infinities / extreme integers, the complete value spaces of dates, seconds and microseconds, the complete bounded languages of pictures and of inputs per token and token pair (which drive every field parser from every short input and every flag interaction between two fields), and every length of blank / digit / hyphen / multi-byte / letter runs as picture and as input. The same exploration is repeated on a build with overflow checks and debug assertions, where every arithmetic wrap in the crate becomes a panic.",
        "Trusted: catch_unwind semantics; the harness itself is built with the same profile. Strings longer than the bounds are covered only by the run-length and token-repetition families. Allocation failure (abort) is not modelled.",
        "DESIGN.md §4 C03",
    ),
    "C06": (
        "grammar enumeration of lossless pictures (field permutations x month / weekday name styles x 11 separators x meridian styles x fraction variants) crossed with all dates / all seconds (basis pictures) and with year-long value pools (every picture); pure metamorphic oracle; model-free pairwise history independence (every ordered pair of a call alphabet, incl. the same call twice and failing calls, on a fresh thread against the lone call)",
        "For every enumerated (value, lossless picture) pair the real code formats, parses and formats again: the parse must return the original value and the second text must be byte-identical. The reference model only decides which pairs are lossless and unambiguous by the property's definition (four-digit year, month+day or day-of-year, 24-hour or 12-hour+meridian, >= 6 fraction digits when needed, variable-width fields delimited); it never predicts the text, so renderer and parser are checked against each other for every token, case, order and separator.",
        "Trusted: the losslessness filter (spell.rs denoted()/apply()). Timestamp pictures are date x rotating time pictures, not the full product.",
        "DESIGN.md §4 C06",
    ),
    "C15": (
        "exhaustive enumeration: all dates (Date, OracleDate x 3 times), all seconds, timestamps every 86,399.999983 s across the range, boundary pools of all types through serde_json and bincode; raw-integer limits through bincode; complete single-edit neighbourhood of canonical JSON strings; model-free pairwise history independence (every ordered pair of a call alphabet, incl. the same call twice and failing calls, on a fresh thread against the lone call)",
        "Every enumerated value is serialized and deserialized in both forms by the real code: identity, the human-readable text equals the fixed layout rendered by the reference, the binary form equals the raw count; every raw integer at the range limits +/-1 and the integer extremes (and sub-second payloads for the Oracle-style date) must decode to the same in-range value or fail; every single substitution / deletion / insertion of 20 symbols at every position of canonical strings, plus JSON numbers / null / booleans / empty string, must fail or yield an in-range value. A payload that is not the encoding of a value (out-of-range or sub-second raw count, integer of another width) must fail or yield a value inside the documented range - whole seconds for the Oracle-style date - exactly as the property states; that it must not be a wrapped or clamped number is C02's statement and is decided there. Long malformed non-ASCII strings (every byte alignment of every cut-off up to 288 bytes) must fail or decode in range, never panic.",
        "Trusted: serde_json, bincode (default fixed-width little-endian configuration), serde's value deserializers, reference renderer. Decoding also goes through from_value, from_reader, escaped strings, containers (Vec, Option, map value, map key, tuple) and typed scalars of every integer width. Multi-edit malformed strings are not enumerated.",
        "DESIGN.md §4 C15",
    ),
    "C18": (
        "exhaustive enumeration over the environment: every possible current local date (all 3,652,059 days, three times of day) injected through the verif-hooks clock override, crossed with partial pictures, short-year pictures, the omitted 12-hour field, complete pictures, the now() constructors and the Time conversions; clocks outside years 1..9999; model-free pairwise history independence (every ordered pair of a call alphabet, incl. the same call twice and failing calls, on a fresh thread against the lone call)",
        "The wall clock is the crate's only environment input; with the verif-hooks feature every one of its six reads goes through a thread-local override, so the check decides the clock. For every clock day the partial pictures must default year/month from the clock, day to 1, time to zero (12 for an omitted 12-hour field), complete 1-3 digit years with the leading digits of the clock year, and fail - never normalise - when the composed triple is not a real date; complete pictures must give the same value under every clock; now()/TryFrom<Time> must report the injected instant (Oracle date floored) and fail cleanly for clocks outside the range. Ownership of the clock is shown by a canary against the real clock, the read counter and an identical-replay slice. Texts that spell a full four-digit year under a short year field (YY with 0026) must give the same outcome under every clock (decided differentially against one reference clock).",
        "Trusted: chrono NaiveDateTime construction (hook input), the add-only hook patch. Needs the hook (cargo feature verif-hooks). The un-injected clock is compared with chrono::Local under TZ=JST-9 and again after a change of TZ inside the process (the check sets TZ itself and sleeps 1.3 s for chrono's zone refresh).",
        "DESIGN.md §4 C18",
    ),
}

NOT_BUILT_REASON = "check not built yet in this round (work in progress; planned in DESIGN.md §4) — not claimed until its machinery exists and passes on the unchanged tree"

def main():
    props = [json.loads(l) for l in open(os.path.join(ROOT, "properties.jsonl"))]
    checks, na = [], []
    for p in props:
        pid = p["id"]
        if pid in CHECKS:
            tech, text, note, ref = CHECKS[pid]
            checks.append({
                "property_id": pid,
                "quick_cmd": f"./check {pid} quick",
                "thorough_cmd": f"./check {pid} thorough",
                "evidence_file": f"/verif/evidence/{pid}.json",
                "replay_cmd_template": "./check replay {path}",
                "engine": "sqldt-mc",
                "level_claimed": {"category": "model_checking", "text": text, "design_ref": ref},
                "level_note": note,
                "technique": tech,
            })
        else:
            na.append({"property_id": pid, "reason": NOT_BUILT_REASON})
    m = {
        "version": 1,
        "setup_cmd": "./setup.sh",
        "hooks": {
            "guard": "cargo feature `verif-hooks` of the sqldatetime crate",
            "enable": "the harness crate depends on sqldatetime = { path = \"/repo\", features = [\"serde\", \"oracle\", \"verif-hooks\"] }; every ./check invocation runs cargo build against /repo's working tree",
            "baseline_off_cmd": "cd /repo && cargo test --workspace --no-fail-fast --offline",
            "source_commits": [l.strip() for l in open(os.path.join(ROOT, "hook_commits.txt")) if l.strip()],
            "add_only": True,
        },
        "engines": [{
            "name": "sqldt-mc",
            "path": "/verif/mc",
            "serves_properties": sorted(CHECKS.keys()),
            "kind_free_text": "explicit-state bounded exhaustive exploration of the real crate (flat sweeps over complete value spaces, BFS closure over an operation table, bounded string-language enumeration) in lock step with an independent Rust reference model",
        }],
        "checks": checks,
        "notes": "Exit codes of every check: 0 held / 1 new violation (VIOLATION line) / 2 machinery failure. Known findings: /verif/known_findings.json. See DESIGN.md.",
        "not_applicable": na,
    }
    json.dump(m, open(os.path.join(ROOT, "MANIFEST.json"), "w"), indent=1)
    print("MANIFEST.json written:", len(checks), "checks,", len(na), "not claimed")

if __name__ == "__main__":
    main()
